//! Obligations on `arm64_codegenerator.rs` and `utils.rs` (T1-extracted, compiled for the host):
//! every emitter against the independent A64 decoder, for ALL operand values.
#![allow(static_mut_refs, dead_code, unused_imports)]
use super::*;
use crate::verif_rt::oracle::*;

fn bits16(v: u16) -> [bool; 16] {
    let mut b = [false; 16];
    let mut i = 0;
    while i < 16 {
        b[i] = (v >> i) & 1 == 1;
        i += 1;
    }
    b
}

#[kani::proof]
#[kani::unwind(66)]
fn c15_bits() {
    let n: u64 = kani::any();
    let b = u64_to_bits(n);
    let i: usize = kani::any();
    kani::assume(i < 64);
    assert!(b[i] == ((n >> i) & 1 == 1), "OBL:C15.bits.u64: bit i of u64_to_bits(n) is bit i of n");
    let m: u8 = kani::any();
    let b5 = u8_to_bits::<5>(m);
    let b2 = u8_to_bits::<2>(m);
    let j: usize = kani::any();
    kani::assume(j < 5);
    assert!(b5[j] == ((m >> j) & 1 == 1), "OBL:C15.bits.u8x5: bit j of u8_to_bits::<5>(m) is bit j of m");
    assert!(j >= 2 || b2[j] == ((m >> j) & 1 == 1), "OBL:C15.bits.u8x2: bit j of u8_to_bits::<2>(m) is bit j of m");
    let w: u32 = kani::any();
    let mut wb = [false; 32];
    let mut k = 0;
    while k < 32 {
        wb[k] = (w >> k) & 1 == 1;
        k += 1;
    }
    assert!(bool_array_to_u32(wb) == w, "OBL:C15.bits.pack: bool_array_to_u32 packs bit i into bit i");
    kani::cover!(true, "COVER:end");
}

#[kani::proof]
#[kani::unwind(34)]
fn c15_movz_movk() {
    let imm: u16 = kani::any();
    let hw: u8 = kani::any();
    let rd: u8 = kani::any();
    kani::assume(hw < 4 && rd < 32);
    let z = bool_array_to_u32(emit_movz(bits16(imm), true, u8_to_bits::<2>(hw), u8_to_bits::<5>(rd)));
    assert!(a64_decode(z) == Some(A64::Movz { sf: true, hw, imm16: imm, rd }), "OBL:C15.movz: emit_movz encodes MOVZ Xd, #imm16, LSL #(16*hw) for every operand");
    let k = bool_array_to_u32(emit_movk(bits16(imm), true, u8_to_bits::<2>(hw), u8_to_bits::<5>(rd)));
    assert!(a64_decode(k) == Some(A64::Movk { sf: true, hw, imm16: imm, rd }), "OBL:C15.movk: emit_movk encodes MOVK Xd, #imm16, LSL #(16*hw) for every operand");
    kani::cover!(true, "COVER:end");
}

#[kani::proof]
#[kani::unwind(66)]
fn c15_from_address() {
    let addr: u64 = kani::any();
    let hw: u8 = kani::any();
    let rd: u8 = kani::any();
    kani::assume(hw < 4 && rd < 32);
    let start = 16 * hw as usize;
    let chunk = ((addr >> start) & 0xFFFF) as u16;
    let z = bool_array_to_u32(emit_movz_from_address(addr, start, true, u8_to_bits::<2>(hw), u8_to_bits::<5>(rd)));
    assert!(a64_decode(z) == Some(A64::Movz { sf: true, hw, imm16: chunk, rd }), "OBL:C15.movz.addr: emit_movz_from_address takes exactly the 16-bit chunk at `start`");
    let k = bool_array_to_u32(emit_movk_from_address(addr, start, true, u8_to_bits::<2>(hw), u8_to_bits::<5>(rd)));
    assert!(a64_decode(k) == Some(A64::Movk { sf: true, hw, imm16: chunk, rd }), "OBL:C15.movk.addr: emit_movk_from_address takes exactly the 16-bit chunk at `start`");
    kani::cover!(true, "COVER:end");
}

#[kani::proof]
#[kani::unwind(34)]
fn c15_br_ret() {
    let rn: u8 = kani::any();
    kani::assume(rn < 32);
    let b = bool_array_to_u32(emit_br(u8_to_bits::<5>(rn)));
    assert!(a64_decode(b) == Some(A64::Br { rn }), "OBL:C15.br: emit_br encodes BR Xn");
    let r = bool_array_to_u32(emit_ret(&u8_to_bits::<5>(rn)));
    assert!(a64_decode(r) == Some(A64::Ret { rn }), "OBL:C15.ret: emit_ret encodes RET Xn");
    let r30 = bool_array_to_u32(emit_ret_x30());
    assert!(a64_decode(r30) == Some(A64::Ret { rn: 30 }) && r30 == 0xD65F_03C0, "OBL:C15.ret.x30: emit_ret_x30 is RET (x30)");
    kani::cover!(true, "COVER:end");
}

/// C15.entry.macos (T5 variant only): `maybe_emit_long_jump(pc, target)` for ALL pc/target whose
/// distance is what the macOS allocator guarantees (and the wider ±(4 GiB - 4 KiB) too): one B landing
/// on target when within ±128 MiB, else ADRP x16 / ADD x16 / BR x16 with x16 == target; only x16 written.
#[cfg(verif_macos)]
#[kani::proof]
#[kani::unwind(5)]
fn c15_long_jump() {
    let pc: usize = kani::any();
    let target: usize = kani::any();
    // instructions are word aligned; the trampoline is the start of a page-aligned mapping
    kani::assume(pc % 4 == 0 && target % 4 == 0 && pc < 0x8000_0000_0000 && target < 0x1_0000_0000_0000);
    let d = target as i128 - pc as i128;
    kani::assume(d >= -(0xFFFF_F000i128) && d <= 0xFFFF_F000i128);
    let v = maybe_emit_long_jump(pc, target);
    assert!(v.len() == 1 || v.len() == 3, "OBL:C15.long.len: one or three instructions");
    let mut w = [0u32; 3];
    w[0] = v[0];
    if v.len() == 3 {
        w[1] = v[1];
        w[2] = v[2];
    }
    let regs: [u64; 32] = kani::any();
    let run = a64_run(&w, v.len(), pc as u64, &regs);
    crate::obligations! {
        (run.end == A64End::Jump(target as u64)) => "OBL:C15.long.lands: the entry sequence transfers control to exactly the trampoline",
        (run.written & !(1 << 16) == 0) => "OBL:C15.long.regs: only x16 (IP0) is written",
        (run.written & 0x7FF8_01FF == 0) => "OBL:C13.a64.long-entry.effect: no argument, indirect-result, callee-saved or link register is written",
        ((v.len() == 1) == (d >= -(1 << 27) && d < (1 << 27))) => "OBL:C15.long.short-iff-reach: a single B exactly when the target is within its reach",
    }
    kani::cover!(v.len() == 1, "COVER:short");
    kani::cover!(v.len() == 3, "COVER:long");
    kani::cover!(true, "COVER:end");
}

// ---- function contracts (T3 splices the requires/ensures onto the real functions) ---------------
// proved here function by function; used instead of the bodies by `c15_abs_modular`

#[kani::proof_for_contract(emit_movz_from_address)]
#[kani::unwind(66)]
fn contract_emit_movz_from_address() {
    let _ = emit_movz_from_address(kani::any(), kani::any(), kani::any(), kani::any(), kani::any());
}

#[kani::proof_for_contract(emit_movk_from_address)]
#[kani::unwind(66)]
fn contract_emit_movk_from_address() {
    let _ = emit_movk_from_address(kani::any(), kani::any(), kani::any(), kani::any(), kani::any());
}

#[kani::proof_for_contract(emit_br)]
#[kani::unwind(34)]
fn contract_emit_br() {
    let _ = emit_br(kani::any());
}
