//! Obligations on `patch_amd64.rs` (child module: sees its private functions).
#![allow(static_mut_refs, dead_code, unused_imports)]
use super::*;
use crate::injector_core::common::verif_common::*;
use crate::verif_rt::oracle::*;
use crate::verif_rt::*;
use libc::verif as os;

/// C01.enc.* / C13.x86.enc — `generate_branch_to_target_function(o, t)` for ALL o, t in the lower
/// canonical half: the bytes decode (independent decoder) to a jump landing exactly on t; the
/// short form is chosen exactly when t is within rel32 reach; only rax may be written.
#[kani::proof]
fn c01_enc_lands() {
    let o: usize = kani::any();
    let t: usize = kani::any();
    kani::assume(o <= isize::MAX as usize - 5);
    kani::assume(t <= isize::MAX as usize);
    let v = generate_branch_to_target_function(o, t);
    assert!(v.len() == 5 || v.len() == 12, "OBL:C01.enc.len: patch is 5 or 12 bytes");
    assert!(x86_lands(&v, o) == Some(t), "OBL:C01.enc.lands: the emitted jump lands exactly on the requested address");
    let d = t as i128 - (o as i128 + 5);
    let reach = d >= i32::MIN as i128 && d <= i32::MAX as i128;
    assert!((v.len() == 5) == reach, "OBL:C01.enc.short-iff-reach: rel32 form exactly when the displacement fits");
    let eff = x86_effect(&v);
    assert!(eff == Some(0) || eff == Some(W_RAX), "OBL:C13.x86.enc.effect: the jump writes nothing but rax");
    assert!(v.len() != 5 || eff == Some(0), "OBL:C13.x86.enc.short-pure: the short form writes no register at all");
    kani::cover!(v.len() == 5, "COVER:short-form");
    kani::cover!(v.len() == 12, "COVER:long-form");
    kani::cover!(true, "COVER:end");
}
