//! Obligations on `patch_amd64.rs` (child module: sees its private functions).
#![allow(static_mut_refs, dead_code, unused_imports)]
use super::*;
use crate::injector_core::common::verif_common::*;
use crate::verif_rt::oracle::*;
use crate::verif_rt::*;
use libc::verif as os;

/// C01.enc.* / C13.x86.enc — `generate_branch_to_target_function(o, t)` for ALL o, t in the lower
/// canonical half: the bytes decode (independent decoder) to a jump landing exactly on t; the
/// short form is chosen exactly when t is within rel32 reach; only rax may be written.
#[kani::proof]
fn c01_enc_lands() {
    let o: usize = kani::any();
    let t: usize = kani::any();
    kani::assume(o <= isize::MAX as usize - 5);
    kani::assume(t <= isize::MAX as usize);
    let v = generate_branch_to_target_function(o, t);
    let d = t as i128 - (o as i128 + 5);
    let reach = d >= i32::MIN as i128 && d <= i32::MAX as i128;
    let eff = x86_effect(&v);
    crate::obligations! {
        (v.len() == 5 || v.len() == 12) => "OBL:C01.enc.len: patch is 5 or 12 bytes",
        (x86_lands(&v, o) == Some(t)) => "OBL:C01.enc.lands: the emitted jump lands exactly on the requested address",
        ((v.len() == 5) == reach) => "OBL:C01.enc.short-iff-reach: rel32 form exactly when the displacement fits",
        (eff == Some(0) || eff == Some(W_RAX)) => "OBL:C13.x86.enc.effect: the jump writes nothing but rax",
        (v.len() != 5 || eff == Some(0)) => "OBL:C13.x86.enc.short-pure: the short form writes no register at all",
    }
    kani::cover!(v.len() == 5, "COVER:short-form");
    kani::cover!(v.len() == 12, "COVER:long-form");
    kani::cover!(true, "COVER:end");
}

// ------------------------------------------------------------------------------------------------
// Effect obligations: the real installer and the real PatchGuard::drop over the modelled memory.
// One lifecycle harness per installation shape; each assertion is tagged with the property it decides.

const A: usize = os::ARENA;

fn check_install(g: &PatchGuard, src_off: usize, jit_off: Option<usize>, jit_addr: usize, jit_len: usize) {
    unsafe {
        let base = os::mem_base();
        let n = g_size(g);
        let size_ok = n == 5 || n == 12;
        let in_arena = size_ok && src_off + n <= A;
        // symbolic witnesses for the for-all obligations
        let j: usize = kani::any();
        kani::assume(j < 12);
        let i: usize = kani::any();
        kani::assume(i < A);
        let in_entry = in_arena && in_range(i, src_off, n);
        let in_jit = match jit_off {
            Some(o) => in_range(i, o, jit_len),
            None => false,
        };
        let changed = os::MEM[i] != SNAPSHOT[i];
        // publication order: index of the last flush (= end of a write) that covers the first trampoline
        // byte / the first entry byte
        let mut f_tramp = usize::MAX;
        let mut f_entry = usize::MAX;
        let mut k = 0;
        while k < os::MAXFLUSH {
            if k < os::N_FLUSH {
                if os::FLUSH_START[k] <= jit_addr && jit_addr < os::FLUSH_END[k] {
                    f_tramp = k;
                }
                if os::FLUSH_START[k] <= base + src_off && base + src_off < os::FLUSH_END[k] {
                    f_entry = k;
                }
            }
            k += 1;
        }
        crate::obligations! {
            (f_tramp != usize::MAX && f_entry != usize::MAX && f_tramp < f_entry) => "OBL:C01.order.tramp-before-entry: the trampoline is completely written (and flushed) before the entry is redirected to it, so a call arriving during installation never runs an unfinished trampoline",
            size_ok => "OBL:C03.entry-slot: at most the 16-byte entry slot is overwritten",
            in_arena => "OBL:C03.entry-in-arena: the entry patch stays inside the function's memory",
            (in_arena && x86_lands(&os::MEM[src_off..src_off + if in_arena { n } else { 0 }], base + src_off) == Some(jit_addr)) => "OBL:C01.install.entry: the bytes at the function entry decode to a jump landing exactly on the trampoline",
            (g_func(g) == base + src_off) => "OBL:C02.save.addr: the guard remembers the patched address",
            (g_orig(g).len() >= n) => "OBL:C02.save.len: the guard holds at least patch_size original bytes",
            (!in_arena || j >= n || j >= g_orig(g).len() || g_orig(g)[j] == SNAPSHOT[src_off + j]) => "OBL:C02.save.bytes: saved bytes are the bytes that were there before the patch",
            (ALLOC_ANCHOR == base + src_off) => "OBL:C11.alloc.anchor: the trampoline is allocated near the function being patched (the entry branch must reach it), not near anything else",
            (g_jit(g) == jit_addr && g_jit_size(g) == jit_len && jit_len == os::LAST_MMAP_LEN) => "OBL:C12.own: the guard owns exactly the mapping (address, length) that mmap returned for this installation",
            (os::live_count() == 1 && os::N_MMAP_OK == 1 && os::N_MUNMAP == 0) => "OBL:C12.one-mapping: one mapping per installation, none released early",
            (os::LAST_MMAP_PROT == (libc::PROT_READ | libc::PROT_WRITE | libc::PROT_EXEC)) => "OBL:C01.tramp.executable: the trampoline is mapped executable",
            (in_entry || in_jit || !changed) => "OBL:C03.frame.install: no byte outside the entry patch and the trampoline changes",
            (!(changed || in_entry) || flushed_with_final_content(i)) => "OBL:C17.install: every written byte is covered by a flush issued after its last write",
            (os::EV_KIND[0] == 4) => "OBL:C01.order.alloc-first: the trampoline is obtained before the function is touched",
            (in_arena && os::writable(base + src_off, n)) => "OBL:C01.page.cover: every byte of the entry patch lies in pages made R|W|X by a successful mprotect",
            (!os::FLUSH_UNPROT) => "OBL:C01.page.before-write: every range that was written (and flushed) was writable at that moment",
        }
    }
}

fn check_drop(src_off: usize, jit_off: Option<usize>, jit_len: usize, n: usize) {
    unsafe {
        let i: usize = kani::any();
        kani::assume(i < A);
        let in_jit = match jit_off {
            Some(o) => in_range(i, o, jit_len),
            None => false,
        };
        let last = if os::N_FLUSH >= 1 && os::N_FLUSH <= os::MAXFLUSH { os::N_FLUSH - 1 } else { 0 };
        crate::obligations! {
            (os::N_MUNMAP == 1 && !os::BAD_MUNMAP && os::live_count() == 0) => "OBL:C12.release: the trampoline mapping is released exactly once, with exactly its address and length",
            (in_jit || os::MEM[i] == SNAPSHOT[i]) => "OBL:C02.restore: after drop every byte outside the released trampoline is what it was before installation",
            (!in_range(i, src_off, n) || flushed_with_final_content(i)) => "OBL:C17.drop: restored bytes are covered by a flush issued after the restoring write",
            (!os::FLUSH_UNPROT) => "OBL:C02.restore.writable: the restoring write goes to pages that are writable at that moment",
            (os::N_FLUSH >= 1 && os::FLUSH_START[last] <= os::mem_base() + src_off && os::FLUSH_END[last] >= os::mem_base() + src_off + n) => "OBL:C17.drop.last: the final event of restoration is a flush covering the restored range",
        }
    }
}

/// near trampoline (same object => rel32 entry), fake anywhere in the lower canonical half
#[kani::proof]
#[kani::unwind(26)]
#[kani::stub(crate::injector_core::linuxapi::__clear_cache, os::flush)]
#[kani::stub(crate::injector_core::common::allocate_jit_memory, allocate_jit_memory_contract)]
fn lifecycle_near() {
    fresh_world();
    any_page_size();
    unsafe {
        os::SNAP_ON = true;
    }
    let src_off: usize = kani::any();
    let jit_off: usize = kani::any();
    let fake: usize = kani::any();
    kani::assume(src_off <= A - 16);
    kani::assume(jit_off <= A - 12);
    kani::assume(jit_off + 12 <= src_off || src_off + 16 <= jit_off);
    kani::assume(fake != 0 && fake <= isize::MAX as usize);
    unsafe {
        os::MMAP_MODE[0] = os::MMAP_ARENA;
        os::MMAP_OFF[0] = jit_off;
    }
    let base = os::mem_base();
    let g = PatchAmd64::replace_function_with_other_function(fp(os::mem_ptr(src_off)), fp_int(fake));
    unsafe {
        let e = x86_effect(&os::MEM[jit_off..jit_off + 12]);
        crate::obligations! {
            (x86_lands(&os::MEM[jit_off..jit_off + 12], base + jit_off) == Some(fake)) => "OBL:C01.install.tramp: the trampoline decodes to a jump landing exactly on the fake",
            (e == Some(0) || e == Some(W_RAX)) => "OBL:C13.x86.tramp.effect: the trampoline writes nothing but rax",
            (g_size(&g) == 5) => "OBL:C11.x86.reach: a trampoline within the allocation range is reached by the 5-byte rel32 entry",
        }
    }
    check_install(&g, src_off, Some(jit_off), base + jit_off, 12);
    drop(g);
    check_drop(src_off, Some(jit_off), 12, 5);
    kani::cover!(true, "COVER:end");
}

/// forced boolean, near trampoline
#[kani::proof]
#[kani::unwind(26)]
#[kani::stub(crate::injector_core::linuxapi::__clear_cache, os::flush)]
#[kani::stub(crate::injector_core::common::allocate_jit_memory, allocate_jit_memory_contract)]
fn lifecycle_bool() {
    fresh_world();
    any_page_size();
    unsafe {
        os::SNAP_ON = true;
    }
    let src_off: usize = kani::any();
    let jit_off: usize = kani::any();
    let value: bool = kani::any();
    kani::assume(src_off <= A - 16);
    kani::assume(jit_off <= A - 8);
    kani::assume(jit_off + 8 <= src_off || src_off + 16 <= jit_off);
    unsafe {
        os::MMAP_MODE[0] = os::MMAP_ARENA;
        os::MMAP_OFF[0] = jit_off;
    }
    let base = os::mem_base();
    let g = PatchAmd64::replace_function_return_boolean(fp(os::mem_ptr(src_off)), value);
    unsafe {
        let t = &os::MEM[jit_off..jit_off + 8];
        crate::obligations! {
            (t[0] == 0x48 && t[1] == 0xC7 && t[2] == 0xC0 && t[3] == value as u8 && t[4] == 0 && t[5] == 0 && t[6] == 0 && t[7] == 0xC3) => "OBL:C10.stub.x86.bytes: the trampoline is exactly mov rax, imm32(value) ; ret",
            (x86_mov_ret_value(t) == Some(value as u64)) => "OBL:C10.stub.x86.value: rax (hence al) holds exactly the requested boolean at the ret",
            (x86_effect(t) == Some(W_RAX | POP_RET)) => "OBL:C10.stub.x86.effect: only rax is written and the return address is popped as by a normal return",
        }
    }
    check_install(&g, src_off, Some(jit_off), base + jit_off, 8);
    kani::cover!(value, "COVER:true");
    drop(g);
    check_drop(src_off, Some(jit_off), 8, 5);
    kani::cover!(true, "COVER:end");
}

fn far_alloc(_src: &FuncPtrInternal, code_size: usize) -> *mut u8 {
    unsafe {
        os::MMAP_MODE[0] = os::MMAP_FAR;
    }
    allocate_jit_memory_contract(_src, code_size)
}

/// trampoline in a different object (numerically >= 2^48 away): the 12-byte absolute entry form
/// ("Windows-style long entry patch") through the real patch_and_guard; allocator replaced by its contract.
#[kani::proof]
#[kani::unwind(26)]
#[kani::stub(crate::injector_core::linuxapi::__clear_cache, os::flush)]
#[kani::stub(crate::injector_core::common::allocate_jit_memory, far_alloc)]
fn lifecycle_far() {
    fresh_world();
    any_page_size();
    unsafe {
        os::SNAP_ON = true;
    }
    let src_off: usize = kani::any();
    let fake: usize = kani::any();
    kani::assume(src_off <= A - 16);
    kani::assume(fake != 0 && fake <= isize::MAX as usize);
    let base = os::mem_base();
    let far = os::far_ptr() as usize;
    kani::assume(far <= isize::MAX as usize && base <= isize::MAX as usize - A);
    let g = PatchAmd64::replace_function_with_other_function(fp(os::mem_ptr(src_off)), fp_int(fake));
    unsafe {
        assert!(x86_lands(&os::FAR[0..12], far) == Some(fake), "OBL:C01.install.tramp: the trampoline decodes to a jump landing exactly on the fake");
    }
    check_install(&g, src_off, None, far, 12);
    kani::cover!(g_size(&g) == 12, "COVER:long-entry");
    let n = g_size(&g);
    drop(g);
    check_drop(src_off, None, 12, n);
    kani::cover!(true, "COVER:end");
}

// ---- C05 / C01.fail.loud: installation that cannot be completed ---------------------------------

/// no trampoline can be obtained (allocator contract: clean-failure panic): raised before the
/// function is touched, nothing mapped, for both installers
#[kani::proof]
#[kani::unwind(26)]
#[kani::stub(crate::injector_core::linuxapi::__clear_cache, os::flush)]
#[kani::stub(crate::injector_core::common::allocate_jit_memory, allocate_jit_memory_contract)]
fn c05_nomem() {
    fresh_world();
    let src_off: usize = kani::any();
    kani::assume(src_off <= A - 16);
    let as_bool: bool = kani::any();
    unsafe {
        os::MMAP_MODE[0] = os::MMAP_FAIL;
        ALLOW = bit(K_NOMEM);
        JUSTIFIED = true;
        NEED_MEM_EQ = true;
        NEED_LIVE = 0;
    }
    let g = if as_bool {
        PatchAmd64::replace_function_return_boolean(fp(os::mem_ptr(src_off)), true)
    } else {
        PatchAmd64::replace_function_with_other_function(fp(os::mem_ptr(src_off)), fp_int(0x1000))
    };
    kani::cover!(true, "COVER:installed-without-memory");
    std::mem::forget(g);
}

/// the function's pages cannot be made writable: "mprotect failed" panic with the function untouched
#[kani::proof]
#[kani::unwind(26)]
#[kani::stub(crate::injector_core::linuxapi::__clear_cache, os::flush)]
#[kani::stub(crate::injector_core::common::allocate_jit_memory, far_alloc)]
fn c05_mprotect_fails() {
    fresh_world();
    let src_off: usize = kani::any();
    kani::assume(src_off <= A - 16);
    kani::assume(os::far_ptr() as usize <= isize::MAX as usize - 64 && os::mem_base() <= isize::MAX as usize - A);
    let as_bool: bool = kani::any();
    unsafe {
        os::MPROTECT_FAIL = true;
        ALLOW = bit(K_MPROTECT);
        JUSTIFIED = true;
        NEED_MEM_EQ = true; // the trampoline lives in the far object: the arena is code memory only
    }
    let g = if as_bool {
        PatchAmd64::replace_function_return_boolean(fp(os::mem_ptr(src_off)), true)
    } else {
        PatchAmd64::replace_function_with_other_function(fp(os::mem_ptr(src_off)), fp_int(0x1000))
    };
    kani::cover!(true, "COVER:installed-despite-mprotect-failure");
    std::mem::forget(g);
}

fn mon_no_guard_at_panic(kind: u32, _line: u32) {
    unsafe {
        assert!(kind == K_MPROTECT, "OBL:C05.refused.kind: the refusal is the mprotect failure");
        assert!(GUARDS_CREATED == 0, "OBL:C05.no-guard-at-refusal: when the installation is refused no PatchGuard for that target exists yet — its destructor would run during the unwind, call the failing mprotect again and turn one panic into an abort");
        let i: usize = kani::any();
        kani::assume(i < A);
        assert!(os::MEM[i] == SNAPSHOT[i], "OBL:C05.refused.untouched: the refused target is untouched");
    }
    kani::cover!(true, "COVER:panic-hook");
    kani::assume(false);
}

/// C05 (at most one panic, never an abort): an installation refused at the mprotect step raises its
/// panic while no guard for that target is alive.
#[kani::proof]
#[kani::unwind(26)]
#[kani::stub(crate::injector_core::linuxapi::__clear_cache, os::flush)]
#[kani::stub(crate::injector_core::common::allocate_jit_memory, far_alloc)]
#[kani::stub(crate::verif_rt::on_panic, mon_no_guard_at_panic)]
fn c05_no_guard_before_writable() {
    fresh_world();
    kani::assume(os::far_ptr() as usize <= isize::MAX as usize - 64 && os::mem_base() <= isize::MAX as usize - A);
    let as_bool: bool = kani::any();
    unsafe {
        os::MPROTECT_FAIL = true;
        GUARDS_CREATED = 0;
    }
    let g = if as_bool {
        PatchAmd64::replace_function_return_boolean(fp(os::mem_ptr(16)), true)
    } else {
        PatchAmd64::replace_function_with_other_function(fp(os::mem_ptr(16)), fp_int(0x1000))
    };
    kani::cover!(true, "COVER:installed-despite-mprotect-failure");
    std::mem::forget(g);
}
