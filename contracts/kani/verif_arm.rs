//! Obligations on `patch_arm.rs` (T1-extracted, compiled for the host). 32-bit addresses cannot be
//! host pointers into a model arena, so `read_bytes` and `patch_function` are replaced by recorders
//! and the source / fake addresses are ALL 32-bit integers.
#![allow(static_mut_refs, dead_code, unused_imports)]
use super::*;
use crate::injector_core::common::verif_common::*;
use crate::verif_rt::oracle::*;
use crate::verif_rt::*;

static mut R_ADDR: usize = 0;
static mut R_LEN: usize = 0;
static mut R_CALLS: usize = 0;
static mut P_DEST: usize = 0;
static mut P_LEN: usize = 0;
static mut P_CALLS: usize = 0;
static mut P_PATCH: [u8; 12] = [0; 12];
static mut ORIG: [u8; 12] = [0; 12];

unsafe fn rec_read_bytes(ptr: *const u8, len: usize) -> Vec<u8> {
    R_ADDR = ptr as usize;
    R_LEN = len;
    R_CALLS += 1;
    let mut v = Vec::with_capacity(12);
    let mut i = 0;
    while i < 12 {
        if i < len {
            v.push(ORIG[i]);
        }
        i += 1;
    }
    v
}

unsafe fn rec_patch_function(func: *mut u8, patch: &[u8]) {
    P_DEST = func as usize;
    P_LEN = patch.len();
    P_CALLS += 1;
    let mut i = 0;
    while i < 12 {
        if i < patch.len() {
            P_PATCH[i] = patch[i];
        }
        i += 1;
    }
}

fn arm_case(src: u32, fake: u32) {
    unsafe {
        ORIG = kani::any();
    }
    let g = PatchArm::replace_function_with_other_function(fp_int(src as usize), fp_int(fake as usize));
    let thumb = src & 1 == 1;
    let dest = src & !1;
    unsafe {
        assert!(P_CALLS == 1 && P_LEN == 12 && P_DEST == dest as usize, "OBL:C16.written-range: exactly the 12 bytes at the entry (Thumb bit stripped) are overwritten");
        assert!(R_CALLS == 1 && R_LEN == 12 && R_ADDR == dest as usize, "OBL:C16.saved-range: the saved original bytes cover exactly the overwritten range");
        assert!(g_func(&g) == dest as usize && g_size(&g) == 12 && g_jit(&g) == 0 && g_jit_size(&g) == 0, "OBL:C16.guard: the guard restores those 12 bytes and owns no mapping");
        let j: usize = kani::any();
        kani::assume(j < 12);
        assert!(g_orig(&g)[j] == ORIG[j], "OBL:C16.saved-bytes: the guard holds the bytes read before the patch");
        let e = arm_entry_decode(&P_PATCH, dest, thumb);
        assert!(e.is_some(), "OBL:C16.decodes: the entry bytes are a (NOP,) literal load, interworking branch sequence in the function's instruction set");
        if let Some(e) = e {
            assert!(e.rt == e.rm, "OBL:C16.branch-reg: the branch goes through the register that was loaded");
            let off = e.load_addr.wrapping_sub(dest);
            assert!(off <= 8, "OBL:C16.load-in-patch: the literal load reads a word inside the 12 patched bytes");
            if off <= 8 {
                let o = off as usize;
                let word = u32::from_le_bytes([P_PATCH[o], P_PATCH[o + 1], P_PATCH[o + 2], P_PATCH[o + 3]]);
                assert!(word == fake, "OBL:C16.loads-fake: the word actually read by the load is the fake's address, Thumb bit included");
            }
            // split by the specific register so that the recorded finding (r7 in Thumb state, r9 in ARM
            // state) is identified exactly and any other preserved register is still reported
            assert!(!(thumb && e.rt == 7), "OBL:C16.regs.thumb-r7: the Thumb sequence does not load through r7 (callee-saved, the Thumb frame pointer)");
            assert!(!(!thumb && e.rt == 9), "OBL:C16.regs.arm-r9: the ARM sequence does not load through r9 (callee-saved / platform register)");
            let known = if thumb { 1u32 << 7 } else { 1u32 << 9 };
            assert!(e.written & AAPCS32_MUST_PRESERVE & !known == 0, "OBL:C16.regs.other: no other register the procedure-call standard requires a callee to preserve is modified");
        }
    }
    std::mem::forget(g);
}

#[kani::proof]
#[kani::unwind(14)]
#[kani::stub(crate::injector_core::common::read_bytes, rec_read_bytes)]
#[kani::stub(crate::injector_core::common::patch_function, rec_patch_function)]
fn c16_a32() {
    let src: u32 = kani::any();
    let fake: u32 = kani::any();
    kani::assume(src != 0 && fake != 0 && src % 4 == 0);
    arm_case(src, fake);
    kani::cover!(fake & 1 == 1, "COVER:thumb-fake");
    kani::cover!(true, "COVER:end");
}

#[kani::proof]
#[kani::unwind(14)]
#[kani::stub(crate::injector_core::common::read_bytes, rec_read_bytes)]
#[kani::stub(crate::injector_core::common::patch_function, rec_patch_function)]
fn c16_t32_aligned() {
    let src: u32 = kani::any();
    let fake: u32 = kani::any();
    kani::assume(fake != 0 && src % 4 == 1);
    arm_case(src, fake);
    kani::cover!(fake & 1 == 0, "COVER:arm-fake");
    kani::cover!(true, "COVER:end");
}

#[kani::proof]
#[kani::unwind(14)]
#[kani::stub(crate::injector_core::common::read_bytes, rec_read_bytes)]
#[kani::stub(crate::injector_core::common::patch_function, rec_patch_function)]
fn c16_t32_unaligned() {
    let src: u32 = kani::any();
    let fake: u32 = kani::any();
    kani::assume(fake != 0 && src % 4 == 3);
    arm_case(src, fake);
    unsafe {
        assert!(P_PATCH[0] == 0xC0 && P_PATCH[1] == 0x46, "OBL:C16.t32.nop: at a 2-mod-4 address the sequence starts with a Thumb NOP so that the literal is word aligned");
    }
    kani::cover!(true, "COVER:end");
}

/// forced boolean on 32-bit ARM delegates to the same installer with the address of a function that
/// returns the constant
#[kani::proof]
#[kani::unwind(14)]
#[kani::stub(crate::injector_core::common::read_bytes, rec_read_bytes)]
#[kani::stub(crate::injector_core::common::patch_function, rec_patch_function)]
fn c16_bool() {
    let src: u32 = kani::any();
    let v: bool = kani::any();
    kani::assume(src != 0 && src % 4 == 0);
    let g = PatchArm::replace_function_return_boolean(fp_int(src as usize), v);
    unsafe {
        assert!(P_CALLS == 1 && P_DEST == src as usize, "OBL:C10.stub.arm.patched: the entry of the target is patched");
        let want = if v { return_true as usize } else { return_false as usize } as u32;
        let word = u32::from_le_bytes([P_PATCH[8], P_PATCH[9], P_PATCH[10], P_PATCH[11]]);
        assert!(word == want, "OBL:C10.stub.arm.target: the branch goes to the function returning exactly the requested constant");
    }
    assert!(return_true() && !return_false(), "OBL:C10.stub.arm.consts: return_true / return_false return the constants");
    std::mem::forget(g);
    kani::cover!(true, "COVER:end");
}

/// the same contract after an earlier installation on the same entry with other code behind it (the
/// back end has no licence to remember what it read before): any state, any fake, twice
#[kani::proof]
#[kani::unwind(14)]
#[kani::stub(crate::injector_core::common::read_bytes, rec_read_bytes)]
#[kani::stub(crate::injector_core::common::patch_function, rec_patch_function)]
fn c16_again() {
    let src: u32 = kani::any();
    let fake0: u32 = kani::any();
    let fake: u32 = kani::any();
    kani::assume(src != 0 && fake0 != 0 && fake != 0 && src % 4 != 2);
    unsafe {
        ORIG = kani::any();
    }
    let g0 = PatchArm::replace_function_with_other_function(fp_int(src as usize), fp_int(fake0 as usize));
    std::mem::forget(g0);
    unsafe {
        R_CALLS = 0;
        P_CALLS = 0;
        ORIG = kani::any();
    }
    let g = PatchArm::replace_function_with_other_function(fp_int(src as usize), fp_int(fake as usize));
    let dest = src & !1;
    unsafe {
        let j: usize = kani::any();
        kani::assume(j < 12);
        crate::obligations! {
            (g_orig(&g).len() == 12 && g_orig(&g)[j] == ORIG[j]) => "OBL:C02.save.arm.again: after an earlier installation, the guard still holds the bytes that are at the entry at THIS installation",
            (P_CALLS == 1 && P_LEN == 12 && P_DEST == dest as usize && g_func(&g) == dest as usize) => "OBL:C16.written-range.again: exactly the 12 entry bytes are overwritten, once",
        }
        let e = arm_entry_decode(&P_PATCH, dest, src & 1 == 1);
        let ok = match e {
            Some(e) => {
                let off = e.load_addr.wrapping_sub(dest);
                off <= 8 && {
                    let o = off as usize;
                    u32::from_le_bytes([P_PATCH[o], P_PATCH[o + 1], P_PATCH[o + 2], P_PATCH[o + 3]]) == fake
                }
            }
            None => false,
        };
        assert!(ok, "OBL:C16.loads-fake.again: the second installation branches to ITS fake");
    }
    std::mem::forget(g);
    kani::cover!(true, "COVER:end");
}

/// C01.flavour.dispatch, 32-bit ARM arm (T8 variant: the `target_arch = "arm"` arm of internal.rs selected):
/// the dispatch invokes the ARM installer of the requested kind with exactly what it was given (the two
/// installers are replaced by recorders; their own contracts are c16_* and c16_bool_modular).
#[cfg(verif_arch_arm)]
#[kani::proof]
#[kani::unwind(14)]
#[kani::stub(<PatchArm as PatchTrait>::replace_function_with_other_function, rec_arm_install)]
#[kani::stub(<PatchArm as PatchTrait>::replace_function_return_boolean, rec_arm_bool)]
fn c01_dispatch_arm() {
    let src: usize = kani::any();
    let fake: usize = kani::any();
    kani::assume(src != 0 && fake != 0);
    let is_bool: bool = kani::any();
    let v: bool = kani::any();
    let w = crate::injector_core::internal::WhenCalled::new(fp_int(src));
    let g = if is_bool { w.will_return_boolean_guard(v) } else { w.will_execute_guard(fp_int(fake)) };
    unsafe {
        crate::obligations! {
            (B_CALLS + BB_CALLS == 1 && (if is_bool { BB_CALLS == 1 } else { B_CALLS == 1 })) => "OBL:C01.flavour.dispatch.arm.kind: exactly the ARM installer of the requested kind runs, once",
            (if is_bool { BB_SRC == src } else { B_SRC == src }) => "OBL:C01.flavour.dispatch.arm.src: the ARM installer is handed exactly the function given to the builder",
            (is_bool || B_TARGET == fake) => "OBL:C01.flavour.dispatch.arm.target: the ARM installer is handed exactly the replacement given",
            (!is_bool || BB_VALUE == v) => "OBL:C10.dispatch.arm.value: the ARM boolean installer is handed exactly the value given",
        }
    }
    std::mem::forget(g);
    kani::cover!(is_bool, "COVER:bool");
    kani::cover!(!is_bool, "COVER:raw");
    kani::cover!(true, "COVER:end");
}

static mut BB_SRC: usize = 0;
static mut BB_VALUE: bool = false;
static mut BB_CALLS: usize = 0;
fn rec_arm_bool(src: FuncPtrInternal, value: bool) -> PatchGuard {
    unsafe {
        BB_SRC = src.as_ptr() as usize;
        BB_VALUE = value;
        BB_CALLS += 1;
    }
    PatchGuard::new((src.as_ptr() as usize & !1) as *mut u8, Vec::new(), 0, std::ptr::null_mut(), 0)
}

// ---- the boolean installer against the installer's contract (full-width pointers: on the host the
// literal word is the fake's address truncated to 32 bits, which cannot tell two host functions apart)
static mut B_SRC: usize = 0;
static mut B_TARGET: usize = 0;
static mut B_CALLS: usize = 0;
fn rec_arm_install(src: FuncPtrInternal, target: FuncPtrInternal) -> PatchGuard {
    unsafe {
        B_SRC = src.as_ptr() as usize;
        B_TARGET = target.as_ptr() as usize;
        B_CALLS += 1;
    }
    PatchGuard::new((src.as_ptr() as usize & !1) as *mut u8, Vec::new(), 0, std::ptr::null_mut(), 0)
}

#[kani::proof]
#[kani::unwind(14)]
#[kani::stub(<PatchArm as PatchTrait>::replace_function_with_other_function, rec_arm_install)]
fn c16_bool_modular() {
    let src: u32 = kani::any();
    let v: bool = kani::any();
    kani::assume(src != 0);
    let g = PatchArm::replace_function_return_boolean(fp_int(src as usize), v);
    unsafe {
        let want = if v { return_true as usize } else { return_false as usize };
        crate::obligations! {
            (B_CALLS == 1 && B_SRC == src as usize) => "OBL:C10.stub.arm.modular.src: the ordinary installer is invoked once, on the function given",
            (B_TARGET == want) => "OBL:C10.stub.arm.modular.target: the replacement is the function returning exactly the requested constant (full-width pointer)",
            ((return_true as usize) != (return_false as usize) && return_true() && !return_false()) => "OBL:C10.stub.arm.modular.consts: the two constant functions are distinct and return true / false",
        }
    }
    std::mem::forget(g);
    kani::cover!(v, "COVER:true");
    kani::cover!(true, "COVER:end");
}

/// C13 on 32-bit ARM: in all three entry cases the entry sequence leaves the argument registers, the
/// stack pointer and the link register alone (own harness: the C16 harnesses carry known findings whose
/// failing assertions would mask it)
#[kani::proof]
#[kani::unwind(14)]
#[kani::stub(crate::injector_core::common::read_bytes, rec_read_bytes)]
#[kani::stub(crate::injector_core::common::patch_function, rec_patch_function)]
fn c13_arm_args() {
    let src: u32 = kani::any();
    let fake: u32 = kani::any();
    kani::assume(src != 0 && fake != 0 && src % 4 != 2);
    unsafe {
        ORIG = kani::any();
    }
    let g = PatchArm::replace_function_with_other_function(fp_int(src as usize), fp_int(fake as usize));
    unsafe {
        let e = arm_entry_decode(&P_PATCH, src & !1, src & 1 == 1);
        let ok = match e {
            // r0-r3 carry the arguments (and the hidden result pointer), sp the stack, lr the return address
            Some(e) => e.written & 0b0110_0000_0000_1111 == 0,
            None => false,
        };
        assert!(ok, "OBL:C13.arm.entry.args: the entry sequence writes no argument register (r0-r3), nor sp or lr: the fake receives the caller's arguments, stack and return address unchanged");
    }
    std::mem::forget(g);
    kani::cover!(src & 1 == 1, "COVER:thumb");
    kani::cover!(src & 1 == 0, "COVER:arm");
    kani::cover!(true, "COVER:end");
}
