//! Obligations on `patch_arm64.rs` (T1-extracted, compiled for the host).
#![allow(static_mut_refs, dead_code, unused_imports)]
use super::*;
use crate::injector_core::common::verif_common::*;
use crate::verif_rt::oracle::*;
use crate::verif_rt::*;
use libc::verif as os;

fn word(off: usize) -> u32 {
    unsafe { u32::from_le_bytes([os::MEM[off], os::MEM[off + 1], os::MEM[off + 2], os::MEM[off + 3]]) }
}

/// C15.abs — the trampoline written by `generate_will_execute_jit_code_abs(jit, target)` for ALL 64-bit
/// targets: executing it (independent interpreter, any initial registers) ends in a branch to exactly
/// `target`; the only register written is x9.
#[kani::proof]
#[kani::unwind(66)]
#[kani::stub(crate::injector_core::linuxapi::__clear_cache, os::flush)]
fn c15_abs() {
    let target: usize = kani::any();
    generate_will_execute_jit_code_abs(os::mem_ptr(8), target as *const ());
    let w = [word(8), word(12), word(16), word(20), word(24)];
    let regs: [u64; 32] = kani::any();
    let run = a64_run(&w, 5, 0x1000, &regs);
    crate::obligations! {
        (run.end == A64End::Jump(target as u64)) => "OBL:C15.abs.lands: the trampoline builds exactly the 64-bit address of the fake and branches to it",
        (run.written == 1 << 9) => "OBL:C15.abs.regs: the only register written is the caller-saved temporary x9",
        (run.written & 0x7FF8_01FF == 0) => "OBL:C13.a64.tramp.effect: no argument (x0-x7), indirect-result (x8), callee-saved (x19-x29) or link register is written",
        (unsafe { os::N_FLUSH == 1 && os::FLUSH_START[0] == os::mem_base() + 8 && os::FLUSH_END[0] == os::mem_base() + 28 }) => "OBL:C17.a64.tramp.flush: the 20 trampoline bytes are flushed after being written",
    }
    kani::cover!(true, "COVER:end");
}

/// C15.abs, modular form: the same obligation with the three emitters the trampoline writer calls
/// replaced by their (separately proved) contracts — the caller is checked against the callees'
/// contracts, not their bodies.
#[kani::proof]
#[kani::unwind(66)]
#[kani::stub(crate::injector_core::linuxapi::__clear_cache, os::flush)]
#[kani::stub_verified(crate::injector_core::arm64_codegenerator::emit_movz_from_address)]
#[kani::stub_verified(crate::injector_core::arm64_codegenerator::emit_movk_from_address)]
#[kani::stub_verified(crate::injector_core::arm64_codegenerator::emit_br)]
fn c15_abs_modular() {
    let target: usize = kani::any();
    generate_will_execute_jit_code_abs(os::mem_ptr(8), target as *const ());
    let w = [word(8), word(12), word(16), word(20), word(24)];
    let regs: [u64; 32] = kani::any();
    let run = a64_run(&w, 5, 0x1000, &regs);
    assert!(run.end == A64End::Jump(target as u64), "OBL:C15.abs.modular.lands: against the emitters' contracts, the trampoline builds exactly the fake's address and branches to it");
    assert!(run.written == 1 << 9, "OBL:C15.abs.modular.regs: only x9 is written");
    kani::cover!(true, "COVER:end");
}

/// C15.bool — MOVZ X0, #v ; RET
#[kani::proof]
#[kani::unwind(34)]
#[kani::stub(crate::injector_core::linuxapi::__clear_cache, os::flush)]
fn c15_bool() {
    let v: bool = kani::any();
    generate_will_return_boolean_jit_code(os::mem_ptr(8), v);
    let w = [word(8), word(12)];
    assert!(a64_decode(w[0]) == Some(A64::Movz { sf: true, hw: 0, imm16: v as u16, rd: 0 }), "OBL:C15.bool.movz: first instruction is MOVZ X0, #value");
    assert!(a64_decode(w[1]) == Some(A64::Ret { rn: 30 }), "OBL:C15.bool.ret: second instruction is RET");
    let regs: [u64; 32] = kani::any();
    let run = a64_run(&w, 2, 0x1000, &regs);
    assert!(run.end == A64End::Return && run.x0 == v as u64 && run.written == 1, "OBL:C10.stub.a64: x0 holds exactly the requested boolean at the return and nothing else is written");
    kani::cover!(true, "COVER:end");
}

/// C15.entry.linux / C11.a64.range — the real `apply_branch_patch(src, jit)` for a 4-aligned entry and
/// EVERY trampoline address the (Verus-proved) Linux/AArch64 allocator contract allows:
/// the entry becomes `B jit ; NOP ; NOP` landing exactly on jit — never the out-of-range panic,
/// which would leave the freshly allocated trampoline mapped.
#[cfg(not(verif_macos))]
#[kani::proof]
#[kani::unwind(26)]
#[kani::stub(crate::injector_core::linuxapi::__clear_cache, os::flush)]
fn c11_a64_range() {
    fresh_world();
    unsafe {
        os::SNAP_ON = true;
    }
    let base = os::mem_base();
    let jit: usize = kani::any();
    let d = jit as i128 - (base + 16) as i128;
    // post-condition of allocate_jit_memory_unix proved by Verus for linux/aarch64 (C11.alloc.reach.*)
    kani::assume(d >= A64_REACH_LO && d <= A64_REACH_HI && jit % 4 == 0);
    kani::assume(base <= (isize::MAX as usize) / 2 && jit <= isize::MAX as usize);
    unsafe {
        ALLOW = 0; // no explicit panic at all: in particular not "JIT memory is out of branch range"
    }
    let orig: [u8; 12] = kani::any();
    let g = apply_branch_patch(fp(os::mem_ptr(16)), jit as *mut u8, 20, &orig);
    let w = [word(16), word(20), word(24)];
    let regs: [u64; 32] = kani::any();
    let run = a64_run(&w, 3, (base + 16) as u64, &regs);
    let fi: usize = kani::any();
    kani::assume(fi >= 16 && fi < 28);
    let oi: usize = kani::any();
    kani::assume(oi < os::ARENA && !(oi >= 16 && oi < 28));
    let j: usize = kani::any();
    kani::assume(j < 12);
    crate::obligations! {
        (run.end == A64End::Jump(jit as u64) && run.written == 0) => "OBL:C15.entry.linux.lands: the entry is an unconditional branch whose destination is exactly the trampoline",
        (w[1] == 0xD503_201F && w[2] == 0xD503_201F) => "OBL:C15.entry.linux.nops: the rest of the 12-byte patch is NOPs",
        (run.written == 0) => "OBL:C13.a64.entry.effect: the entry branch writes no register at all",
        (flushed_with_final_content(fi)) => "OBL:C17.a64.entry.flush: the 12 entry bytes are covered by a flush issued after they were written",
        (unsafe { os::MEM[oi] == SNAPSHOT[oi] }) => "OBL:C03.frame.a64: only the 12 entry bytes change",
        (g_size(&g) == 12 && g_func(&g) == base + 16 && g_jit(&g) == jit && g_jit_size(&g) == 20) => "OBL:C12.own.a64: the guard owns exactly the trampoline it was given",
        (g_orig(&g).len() == 12 && g_orig(&g)[j] == orig[j]) => "OBL:C02.save.a64: the guard keeps the original 12 bytes it was handed",
    }
    std::mem::forget(g);
    kani::cover!(d == A64_REACH_LO, "COVER:lowest");
    kani::cover!(d == A64_REACH_HI - 3, "COVER:highest");
    kani::cover!(true, "COVER:end");
}

/// out-of-range displacements are refused, not wrapped: for EVERY other word-aligned trampoline
/// address the function panics with the entry untouched.
#[cfg(not(verif_macos))]
#[kani::proof]
#[kani::unwind(26)]
#[kani::stub(crate::injector_core::linuxapi::__clear_cache, os::flush)]
fn c15_a64_out_of_range_refused() {
    fresh_world();
    let base = os::mem_base();
    let jit: usize = kani::any();
    let d = jit as i128 - (base + 16) as i128;
    kani::assume((d < -(1 << 27) || d > (1 << 27) - 4) && jit % 4 == 0);
    kani::assume(base <= (isize::MAX as usize) / 2 && jit <= isize::MAX as usize);
    unsafe {
        ALLOW = bit(K_RANGE);
        JUSTIFIED = true;
        NEED_MEM_EQ = true;
        NEED_NO_EVENTS = true;
    }
    let orig: [u8; 12] = kani::any();
    let g = apply_branch_patch(fp(os::mem_ptr(16)), jit as *mut u8, 20, &orig);
    kani::cover!(true, "COVER:wrapped-branch-written");
    std::mem::forget(g);
}

/// C15.entry.macos (T5 variant) — the macOS arm of the real `apply_branch_patch` for EVERY trampoline
/// address the macOS allocator contract allows (within 2 GiB): the 12 entry bytes are either
/// `B jit; NOP; NOP` or `ADRP x16; ADD x16; BR x16`, and executing them lands exactly on the trampoline,
/// writing at most x16.
#[cfg(verif_macos)]
#[kani::proof]
#[kani::unwind(26)]
#[kani::stub(crate::injector_core::linuxapi::__clear_cache, os::flush)]
fn c15_entry_macos() {
    fresh_world();
    unsafe {
        os::SNAP_ON = true;
    }
    let base = os::mem_base();
    let jit: usize = kani::any();
    let d = jit as i128 - (base + 16) as i128;
    kani::assume(d >= -0x8000_0000 && d <= 0x8000_0000 && jit % 4096 == 0);
    kani::assume(base <= (isize::MAX as usize) / 2 && jit <= isize::MAX as usize);
    unsafe {
        ALLOW = 0;
    }
    let orig: [u8; 12] = kani::any();
    let g = apply_branch_patch(fp(os::mem_ptr(16)), jit as *mut u8, 20, &orig);
    let w = [word(16), word(20), word(24)];
    let regs: [u64; 32] = kani::any();
    let run = a64_run(&w, 3, (base + 16) as u64, &regs);
    let oi: usize = kani::any();
    kani::assume(oi < os::ARENA && !(oi >= 16 && oi < 28));
    crate::obligations! {
        (run.end == A64End::Jump(jit as u64)) => "OBL:C15.entry.macos.lands: the macOS entry (direct B or ADRP/ADD/BR) transfers control to exactly the trampoline",
        (run.written & !(1 << 16) == 0) => "OBL:C15.entry.macos.regs: at most x16 is written",
        (g_size(&g) == 12 && g_func(&g) == base + 16 && g_jit(&g) == jit) => "OBL:C12.own.a64.macos: the guard owns exactly the trampoline it was given",
        (unsafe { os::MEM[oi] == SNAPSHOT[oi] }) => "OBL:C03.frame.a64.macos: only the 12 entry bytes change",
    }
    std::mem::forget(g);
    kani::cover!(d > (1 << 27), "COVER:long-form");
    kani::cover!(d < (1 << 27) && d >= -(1 << 27), "COVER:short-form");
    kani::cover!(true, "COVER:end");
}

// the reach the Linux/AArch64 allocator contract guarantees (same constants as contracts/verus_alloc.py)
pub(crate) const A64_REACH_LO: i128 = -0x8000000;
pub(crate) const A64_REACH_HI: i128 = 0x7FFFFFF;
