//! Obligations on `patch_arm64.rs` (T1-extracted, compiled for the host).
#![allow(static_mut_refs, dead_code, unused_imports)]
use super::*;
use crate::injector_core::common::verif_common::*;
use crate::verif_rt::oracle::*;
use crate::verif_rt::*;
use libc::verif as os;

fn word(off: usize) -> u32 {
    unsafe { u32::from_le_bytes([os::MEM[off], os::MEM[off + 1], os::MEM[off + 2], os::MEM[off + 3]]) }
}

/// C15.abs — the trampoline written by `generate_will_execute_jit_code_abs(jit, target)` for ALL 64-bit
/// targets: executing it (independent interpreter, any initial registers) ends in a branch to exactly
/// `target`; the only register written is x9.
#[kani::proof]
#[kani::unwind(66)]
#[kani::stub(crate::injector_core::linuxapi::__clear_cache, os::flush)]
fn c15_abs() {
    let target: usize = kani::any();
    generate_will_execute_jit_code_abs(os::mem_ptr(8), target as *const ());
    let w = [word(8), word(12), word(16), word(20), word(24)];
    let regs: [u64; 32] = kani::any();
    let run = a64_run(&w, 5, 0x1000, &regs);
    crate::obligations! {
        (run.end == A64End::Jump(target as u64)) => "OBL:C15.abs.lands: the trampoline builds exactly the 64-bit address of the fake and branches to it",
        (run.written == 1 << 9) => "OBL:C15.abs.regs: the only register written is the caller-saved temporary x9",
        (run.written & 0x7FF8_01FF == 0) => "OBL:C13.a64.tramp.effect: no argument (x0-x7), indirect-result (x8), callee-saved (x19-x29) or link register is written",
        (unsafe { os::N_FLUSH == 1 && os::FLUSH_START[0] == os::mem_base() + 8 && os::FLUSH_END[0] == os::mem_base() + 28 }) => "OBL:C17.a64.tramp.flush: the 20 trampoline bytes are flushed after being written",
    }
    kani::cover!(true, "COVER:end");
}

/// C15.abs, modular form: the same obligation with the three emitters the trampoline writer calls
/// replaced by their (separately proved) contracts — the caller is checked against the callees'
/// contracts, not their bodies.
#[kani::proof]
#[kani::unwind(66)]
#[kani::stub(crate::injector_core::linuxapi::__clear_cache, os::flush)]
#[kani::stub_verified(crate::injector_core::arm64_codegenerator::emit_movz_from_address)]
#[kani::stub_verified(crate::injector_core::arm64_codegenerator::emit_movk_from_address)]
#[kani::stub_verified(crate::injector_core::arm64_codegenerator::emit_br)]
fn c15_abs_modular() {
    let target: usize = kani::any();
    generate_will_execute_jit_code_abs(os::mem_ptr(8), target as *const ());
    let w = [word(8), word(12), word(16), word(20), word(24)];
    let regs: [u64; 32] = kani::any();
    let run = a64_run(&w, 5, 0x1000, &regs);
    assert!(run.end == A64End::Jump(target as u64), "OBL:C15.abs.modular.lands: against the emitters' contracts, the trampoline builds exactly the fake's address and branches to it");
    assert!(run.written == 1 << 9, "OBL:C15.abs.modular.regs: only x9 is written");
    kani::cover!(true, "COVER:end");
}

/// C15.bool — MOVZ X0, #v ; RET
#[kani::proof]
#[kani::unwind(34)]
#[kani::stub(crate::injector_core::linuxapi::__clear_cache, os::flush)]
fn c15_bool() {
    let v: bool = kani::any();
    generate_will_return_boolean_jit_code(os::mem_ptr(8), v);
    let w = [word(8), word(12)];
    assert!(a64_decode(w[0]) == Some(A64::Movz { sf: true, hw: 0, imm16: v as u16, rd: 0 }), "OBL:C15.bool.movz: first instruction is MOVZ X0, #value");
    assert!(a64_decode(w[1]) == Some(A64::Ret { rn: 30 }), "OBL:C15.bool.ret: second instruction is RET");
    let regs: [u64; 32] = kani::any();
    let run = a64_run(&w, 2, 0x1000, &regs);
    assert!(run.end == A64End::Return && run.x0 == v as u64 && run.written == 1, "OBL:C10.stub.a64: x0 holds exactly the requested boolean at the return and nothing else is written");
    kani::cover!(true, "COVER:end");
}

/// C15.entry.linux / C11.a64.range — the real `apply_branch_patch(src, jit)` for a 4-aligned entry and
/// EVERY trampoline address the (Verus-proved) Linux/AArch64 allocator contract allows:
/// the entry becomes `B jit ; NOP ; NOP` landing exactly on jit — never the out-of-range panic,
/// which would leave the freshly allocated trampoline mapped.
#[cfg(not(verif_macos))]
#[kani::proof]
#[kani::unwind(26)]
#[kani::stub(crate::injector_core::linuxapi::__clear_cache, os::flush)]
fn c11_a64_range() {
    fresh_world();
    unsafe {
        os::SNAP_ON = true;
    }
    let base = os::mem_base();
    let jit: usize = kani::any();
    let d = jit as i128 - (base + 16) as i128;
    // post-condition of allocate_jit_memory_unix proved by Verus for linux/aarch64 (C11.alloc.reach.*)
    kani::assume(d >= A64_REACH_LO && d <= A64_REACH_HI && jit % 4 == 0);
    kani::assume(base <= (isize::MAX as usize) / 2 && jit <= isize::MAX as usize);
    unsafe {
        ALLOW = 0; // no explicit panic at all: in particular not "JIT memory is out of branch range"
    }
    let orig: [u8; 12] = kani::any();
    let g = apply_branch_patch(fp(os::mem_ptr(16)), jit as *mut u8, 20, &orig);
    let w = [word(16), word(20), word(24)];
    let regs: [u64; 32] = kani::any();
    let run = a64_run(&w, 3, (base + 16) as u64, &regs);
    let fi: usize = kani::any();
    kani::assume(fi >= 16 && fi < 28);
    let oi: usize = kani::any();
    kani::assume(oi < os::ARENA && !(oi >= 16 && oi < 28));
    let j: usize = kani::any();
    kani::assume(j < 12);
    crate::obligations! {
        (run.end == A64End::Jump(jit as u64) && run.written == 0) => "OBL:C15.entry.linux.lands: the entry is an unconditional branch whose destination is exactly the trampoline",
        (w[1] == 0xD503_201F && w[2] == 0xD503_201F) => "OBL:C15.entry.linux.nops: the rest of the 12-byte patch is NOPs",
        (run.written == 0) => "OBL:C13.a64.entry.effect: the entry branch writes no register at all",
        (flushed_with_final_content(fi)) => "OBL:C17.a64.entry.flush: the 12 entry bytes are covered by a flush issued after they were written",
        (unsafe { os::MEM[oi] == SNAPSHOT[oi] }) => "OBL:C03.frame.a64: only the 12 entry bytes change",
        (g_size(&g) == 12 && g_func(&g) == base + 16 && g_jit(&g) == jit && g_jit_size(&g) == 20) => "OBL:C12.own.a64: the guard owns exactly the trampoline it was given",
        (g_orig(&g).len() == 12 && g_orig(&g)[j] == orig[j]) => "OBL:C02.save.a64: the guard keeps the original 12 bytes it was handed",
    }
    std::mem::forget(g);
    kani::cover!(d == A64_REACH_LO, "COVER:lowest");
    kani::cover!(d == A64_REACH_HI - 3, "COVER:highest");
    kani::cover!(true, "COVER:end");
}

/// out-of-range displacements are refused, not wrapped: for EVERY other word-aligned trampoline
/// address the function panics with the entry untouched.
#[cfg(not(verif_macos))]
#[kani::proof]
#[kani::unwind(26)]
#[kani::stub(crate::injector_core::linuxapi::__clear_cache, os::flush)]
fn c15_a64_out_of_range_refused() {
    fresh_world();
    let base = os::mem_base();
    let jit: usize = kani::any();
    let d = jit as i128 - (base + 16) as i128;
    kani::assume((d < -(1 << 27) || d > (1 << 27) - 4) && jit % 4 == 0);
    kani::assume(base <= (isize::MAX as usize) / 2 && jit <= isize::MAX as usize);
    unsafe {
        ALLOW = bit(K_RANGE);
        JUSTIFIED = true;
        NEED_MEM_EQ = true;
        NEED_NO_EVENTS = true;
    }
    let orig: [u8; 12] = kani::any();
    let g = apply_branch_patch(fp(os::mem_ptr(16)), jit as *mut u8, 20, &orig);
    kani::cover!(true, "COVER:wrapped-branch-written");
    std::mem::forget(g);
}

/// C15.entry.macos (T5 variant) — the macOS arm of the real `apply_branch_patch` for EVERY trampoline
/// address the macOS allocator contract allows (within 2 GiB): the 12 entry bytes are either
/// `B jit; NOP; NOP` or `ADRP x16; ADD x16; BR x16`, and executing them lands exactly on the trampoline,
/// writing at most x16.
#[cfg(verif_macos)]
#[kani::proof]
#[kani::unwind(26)]
#[kani::stub(crate::injector_core::linuxapi::__clear_cache, os::flush)]
fn c15_entry_macos() {
    fresh_world();
    unsafe {
        os::SNAP_ON = true;
    }
    let base = os::mem_base();
    let jit: usize = kani::any();
    let d = jit as i128 - (base + 16) as i128;
    kani::assume(d >= -0x8000_0000 && d <= 0x8000_0000 && jit % 4096 == 0);
    kani::assume(base <= (isize::MAX as usize) / 2 && jit <= isize::MAX as usize);
    unsafe {
        ALLOW = 0;
    }
    let orig: [u8; 12] = kani::any();
    let g = apply_branch_patch(fp(os::mem_ptr(16)), jit as *mut u8, 20, &orig);
    let w = [word(16), word(20), word(24)];
    let regs: [u64; 32] = kani::any();
    let run = a64_run(&w, 3, (base + 16) as u64, &regs);
    let oi: usize = kani::any();
    kani::assume(oi < os::ARENA && !(oi >= 16 && oi < 28));
    crate::obligations! {
        (run.end == A64End::Jump(jit as u64)) => "OBL:C15.entry.macos.lands: the macOS entry (direct B or ADRP/ADD/BR) transfers control to exactly the trampoline",
        (run.written & !(1 << 16) == 0) => "OBL:C15.entry.macos.regs: at most x16 is written",
        (g_size(&g) == 12 && g_func(&g) == base + 16 && g_jit(&g) == jit) => "OBL:C12.own.a64.macos: the guard owns exactly the trampoline it was given",
        (unsafe { os::MEM[oi] == SNAPSHOT[oi] }) => "OBL:C03.frame.a64.macos: only the 12 entry bytes change",
    }
    std::mem::forget(g);
    kani::cover!(d > (1 << 27), "COVER:long-form");
    kani::cover!(d < (1 << 27) && d >= -(1 << 27), "COVER:short-form");
    kani::cover!(true, "COVER:end");
}

// the reach the Linux/AArch64 allocator contract guarantees (same constants as contracts/verus_alloc.py)
pub(crate) const A64_REACH_LO: i128 = -0x8000000;
pub(crate) const A64_REACH_HI: i128 = 0x7FFFFFF;

// ------------------------------------------------------------------------------------------------
// Top level of the AArch64 back end, checked against its callees' contracts (recorders): what is
// read, allocated, generated and patched belongs to THIS installation — also when the same entry
// address was patched before with different code behind it (the back end has no licence to remember).

static mut T_SRC: usize = 0;
static mut T_ORIG: [u8; 12] = [0; 12];
static mut T_JIT: usize = 0;
static mut T_ALLOC_ANCHOR: usize = 0;
static mut T_ALLOC_SIZE: usize = 0;
static mut T_GEN_JIT: usize = 0;
static mut T_GEN_TARGET: usize = 0;
static mut T_GEN_KIND: u8 = 0; // 1 = abs trampoline, 2 = boolean stub
static mut T_GEN_VALUE: bool = false;
static mut T_AP_SRC: usize = 0;
static mut T_AP_JIT: usize = 0;
static mut T_AP_JIT_SIZE: usize = 0;
static mut T_AP_ORIG: [u8; 12] = [0; 12];
static mut T_AP_ORIG_LEN: usize = 0;
static mut T_SEQ: u8 = 0;
static mut T_AP_AT: u8 = 0;
static mut T_GEN_AT: u8 = 0;

/// contract of `read_bytes(ptr, len)`: the `len` bytes currently at `ptr` — T_ORIG when ptr is the
/// function under test, unspecified bytes anywhere else
unsafe fn top_read_bytes(ptr: *const u8, len: usize) -> Vec<u8> {
    let junk: [u8; 12] = kani::any();
    let at_src = ptr as usize == T_SRC;
    let mut v = Vec::with_capacity(12);
    let mut i = 0;
    while i < 12 {
        if i < len {
            v.push(if at_src { T_ORIG[i] } else { junk[i] });
        }
        i += 1;
    }
    v
}
/// contract of `allocate_jit_memory` (success case): some fresh mapping, address of the OS's choosing
fn top_allocate(src: &FuncPtrInternal, code_size: usize) -> *mut u8 {
    unsafe {
        T_ALLOC_ANCHOR = src.as_ptr() as usize;
        T_ALLOC_SIZE = code_size;
        T_JIT as *mut u8
    }
}
fn top_gen_abs(jit_ptr: *mut u8, target: *const ()) {
    unsafe {
        T_SEQ += 1;
        T_GEN_AT = T_SEQ;
        T_GEN_KIND = 1;
        T_GEN_JIT = jit_ptr as usize;
        T_GEN_TARGET = target as usize;
    }
}
fn top_gen_bool(jit_ptr: *mut u8, value: bool) {
    unsafe {
        T_SEQ += 1;
        T_GEN_AT = T_SEQ;
        T_GEN_KIND = 2;
        T_GEN_JIT = jit_ptr as usize;
        T_GEN_VALUE = value;
    }
}
fn top_apply(src: FuncPtrInternal, jit_memory: *mut u8, jit_size: usize, original_bytes: &[u8]) -> PatchGuard {
    unsafe {
        T_SEQ += 1;
        T_AP_AT = T_SEQ;
        T_AP_SRC = src.as_ptr() as usize;
        T_AP_JIT = jit_memory as usize;
        T_AP_JIT_SIZE = jit_size;
        T_AP_ORIG_LEN = original_bytes.len();
        let mut i = 0;
        while i < 12 {
            if i < original_bytes.len() {
                T_AP_ORIG[i] = original_bytes[i];
            }
            i += 1;
        }
    }
    PatchGuard::new(src.as_ptr() as *mut u8, original_bytes.to_vec(), 12, jit_memory, jit_size)
}

fn top_world(src: usize) {
    unsafe {
        T_SRC = src;
        T_ORIG = kani::any();
        T_JIT = kani::any();
        kani::assume(T_JIT != 0);
        T_SEQ = 0;
        T_AP_AT = 0;
        T_GEN_AT = 0;
        T_GEN_KIND = 0;
    }
}

fn top_check(src: usize, g: &PatchGuard, want_kind: u8, want_size: usize) {
    unsafe {
        let j: usize = kani::any();
        kani::assume(j < 12);
        crate::obligations! {
            (T_AP_ORIG_LEN == 12 && T_AP_ORIG[j] == T_ORIG[j]) => "OBL:C02.save.a64.top: the original bytes handed to the entry patcher are the 12 bytes that are at the function's entry at THIS installation",
            (T_AP_SRC == src && g_func(g) == src) => "OBL:C01.a64.top.entry: the entry that is patched is the function given",
            (T_ALLOC_ANCHOR == src) => "OBL:C11.alloc.anchor.a64: the trampoline is allocated near the function being patched",
            (T_AP_JIT == T_JIT && T_AP_JIT_SIZE == T_ALLOC_SIZE && T_ALLOC_SIZE == want_size) => "OBL:C12.own.a64.top: the guard is given exactly the mapping (address, length) that was allocated for this installation",
            (T_GEN_KIND == want_kind && T_GEN_JIT == T_JIT) => "OBL:C01.a64.top.tramp: the trampoline of the requested kind is generated into the mapping allocated for this installation",
            (T_GEN_AT != 0 && T_GEN_AT < T_AP_AT) => "OBL:C01.a64.top.order: the trampoline is complete before the entry is redirected to it",
        }
    }
}

#[cfg(not(verif_macos))]
#[kani::proof]
#[kani::unwind(14)]
#[kani::stub(crate::injector_core::common::read_bytes, top_read_bytes)]
#[kani::stub(crate::injector_core::common::allocate_jit_memory, top_allocate)]
#[kani::stub(crate::injector_core::patch_arm64::generate_will_execute_jit_code_abs, top_gen_abs)]
#[kani::stub(crate::injector_core::patch_arm64::generate_will_return_boolean_jit_code, top_gen_bool)]
#[kani::stub(crate::injector_core::patch_arm64::apply_branch_patch, top_apply)]
fn c02_a64_top() {
    let src: usize = kani::any();
    let fake: usize = kani::any();
    kani::assume(src != 0 && fake != 0);
    top_two_lives(src, fake);
}

/// the same two lifetimes at one concrete entry address (bounded stand-in for "any history": depth 2,
/// one address) — a back end that keeps per-address state in a map is decidable here, where the
/// fully symbolic address makes the map intractable
#[cfg(not(verif_macos))]
#[kani::proof]
#[kani::unwind(14)]
#[kani::stub(crate::injector_core::common::read_bytes, top_read_bytes)]
#[kani::stub(crate::injector_core::common::allocate_jit_memory, top_allocate)]
#[kani::stub(crate::injector_core::patch_arm64::generate_will_execute_jit_code_abs, top_gen_abs)]
#[kani::stub(crate::injector_core::patch_arm64::generate_will_return_boolean_jit_code, top_gen_bool)]
#[kani::stub(crate::injector_core::patch_arm64::apply_branch_patch, top_apply)]
fn c02_a64_top_fixed_addr() {
    let fake: usize = kani::any();
    kani::assume(fake != 0);
    top_two_lives(0x4000, fake);
}

fn top_two_lives(src: usize, fake: usize) {
    // an earlier installation on the same entry, of either kind, with other code behind it
    top_world(src);
    let first_bool: bool = kani::any();
    let g0 = if first_bool {
        PatchArm64::replace_function_return_boolean(fp_int(src), kani::any())
    } else {
        PatchArm64::replace_function_with_other_function(fp_int(src), fp_int(fake))
    };
    top_check(src, &g0, if first_bool { 2 } else { 1 }, if first_bool { 8 } else { 20 });
    std::mem::forget(g0);
    // the installation under examination
    top_world(src);
    let second_bool: bool = kani::any();
    let v: bool = kani::any();
    let g = if second_bool {
        PatchArm64::replace_function_return_boolean(fp_int(src), v)
    } else {
        PatchArm64::replace_function_with_other_function(fp_int(src), fp_int(fake))
    };
    top_check(src, &g, if second_bool { 2 } else { 1 }, if second_bool { 8 } else { 20 });
    unsafe {
        crate::obligations! {
            (second_bool || T_GEN_TARGET == fake) => "OBL:C01.a64.top.fake: the trampoline is generated for the fake given",
            (!second_bool || T_GEN_VALUE == v) => "OBL:C10.a64.top.value: the boolean stub is generated for the value given",
        }
    }
    std::mem::forget(g);
    kani::cover!(first_bool && !second_bool, "COVER:bool-then-fake");
    kani::cover!(true, "COVER:end");
}

/// C01.flavour.dispatch, AArch64 arm (T8 variant: the `target_arch = "aarch64"` arm of internal.rs selected):
/// the dispatch hands the AArch64 installer exactly the function and the replacement / value it was given
/// (the installer's callees are the contract recorders of `c02_a64_top`).
#[cfg(verif_arch_aarch64)]
#[kani::proof]
#[kani::unwind(14)]
#[kani::stub(crate::injector_core::common::read_bytes, top_read_bytes)]
#[kani::stub(crate::injector_core::common::allocate_jit_memory, top_allocate)]
#[kani::stub(crate::injector_core::patch_arm64::generate_will_execute_jit_code_abs, top_gen_abs)]
#[kani::stub(crate::injector_core::patch_arm64::generate_will_return_boolean_jit_code, top_gen_bool)]
#[kani::stub(crate::injector_core::patch_arm64::apply_branch_patch, top_apply)]
fn c01_dispatch_a64() {
    let src: usize = kani::any();
    let fake: usize = kani::any();
    kani::assume(src != 0 && fake != 0);
    top_world(src);
    let is_bool: bool = kani::any();
    let v: bool = kani::any();
    let w = crate::injector_core::internal::WhenCalled::new(fp_int(src));
    let g = if is_bool { w.will_return_boolean_guard(v) } else { w.will_execute_guard(fp_int(fake)) };
    unsafe {
        crate::obligations! {
            (T_AP_SRC == src && g_func(&g) == src) => "OBL:C01.flavour.dispatch.a64.src: the AArch64 installer patches exactly the function handed to the builder",
            (T_GEN_KIND == if is_bool { 2 } else { 1 }) => "OBL:C01.flavour.dispatch.a64.kind: the installer of the requested kind is the one that runs",
            (is_bool || T_GEN_TARGET == fake) => "OBL:C01.flavour.dispatch.a64.target: the trampoline is generated for exactly the replacement handed in",
            (!is_bool || T_GEN_VALUE == v) => "OBL:C10.dispatch.a64.value: the boolean stub is generated for exactly the value handed in",
        }
    }
    std::mem::forget(g);
    kani::cover!(is_bool, "COVER:bool");
    kani::cover!(!is_bool, "COVER:raw");
    kani::cover!(true, "COVER:end");
}
