//! Child module of `injector_core::common`: may read the private fields of `PatchGuard`.
//! Holds the field accessors used by contracts elsewhere and the obligations on the functions
//! of `common.rs` itself.
#![allow(static_mut_refs, dead_code, unused_imports)]
use super::*;
use crate::verif_rt::*;
use libc::verif as os;

pub(crate) fn g_func(g: &PatchGuard) -> usize {
    g.func_ptr as usize
}
pub(crate) fn g_size(g: &PatchGuard) -> usize {
    g.patch_size
}
pub(crate) fn g_jit(g: &PatchGuard) -> usize {
    g.jit_memory as usize
}
pub(crate) fn g_jit_size(g: &PatchGuard) -> usize {
    g.jit_size
}
pub(crate) fn g_orig(g: &PatchGuard) -> &[u8] {
    &g.original_bytes
}

pub(crate) fn fp(p: *const u8) -> FuncPtrInternal {
    unsafe { FuncPtrInternal::new(std::ptr::NonNull::new(p as *mut ()).unwrap()) }
}
pub(crate) fn fp_int(a: usize) -> FuncPtrInternal {
    unsafe { FuncPtrInternal::new(std::ptr::NonNull::new(a as *mut ()).unwrap()) }
}

/// Harness prologue: symbolic arena content, default OS behaviour.
pub(crate) fn fresh_world() {
    unsafe {
        os::MEM = kani::any();
        os::PAGE_SIZE = 4096;
    }
    snapshot();
}

/// Page size of the model: the real one, or a 16-byte page so that every way an entry patch can
/// straddle page boundaries occurs inside the arena (the code is parametric in sysconf's answer).
pub(crate) fn any_page_size() {
    let small: bool = kani::any();
    let ps = if small { 16 } else { 4096 };
    unsafe {
        os::PAGE_SIZE = ps;
    }
    // CBMC/Kani addresses are (object id << 48) + offset, so the arena base is page aligned
    kani::assume(os::mem_base() % ps == 0);
}

/// ∀-style check helper: arena byte `i` currently holds the content it had at the most recent
/// flush that covered it (i.e. a covering flush happened after the last write to it).
pub(crate) fn flushed_with_final_content(i: usize) -> bool {
    unsafe {
        let a = os::mem_base() + i;
        let mut ok = false;
        let mut k = 0;
        while k < os::MAXFLUSH {
            if k < os::N_FLUSH && os::FLUSH_START[k] <= a && a < os::FLUSH_END[k] {
                let d = a - os::FLUSH_START[k];
                // later flushes override earlier ones
                ok = d < os::SNAP && os::FLUSH_SNAP[k][d] == os::MEM[i];
            }
            k += 1;
        }
        ok
    }
}

pub(crate) fn in_range(i: usize, start: usize, len: usize) -> bool {
    i >= start && i < start + len
}

/// Contract of `allocate_jit_memory(src, size)` as proved by Verus on the real loop (C11.alloc):
/// either the clean-failure panic with nothing left mapped, or a fresh live mapping of `size`
/// bytes within range. Used as a `#[kani::stub]` where a caller is checked against the contract
/// instead of the body (the body's loop has up to 65 537 iterations).
pub(crate) static mut ALLOC_ANCHOR: usize = 0;
pub(crate) fn allocate_jit_memory_contract(_src: &FuncPtrInternal, code_size: usize) -> *mut u8 {
    unsafe {
        // ghost: which address the caller asked the trampoline to be placed near
        ALLOC_ANCHOR = _src.as_ptr() as usize;
        let p = libc::mmap(
            std::ptr::null_mut(),
            code_size,
            libc::PROT_READ | libc::PROT_WRITE | libc::PROT_EXEC,
            libc::MAP_ANONYMOUS | libc::MAP_PRIVATE,
            -1,
            0,
        );
        if p == libc::MAP_FAILED {
            crate::verif_rt::on_panic(K_NOMEM, 0);
        }
        p as *mut u8
    }
}

// ------------------------------------------------------------------------------------------------
// Obligations on the functions of common.rs itself.

fn page_cover_body(off: usize, len: usize, ps: usize) {
    unsafe {
        os::PAGE_SIZE = ps;
    }
    let base = os::mem_base();
    // CBMC/Kani addresses are (object id << 48) + offset, so the arena base is page aligned
    kani::assume(base % ps == 0);
    let patch: [u8; 16] = kani::any();
    unsafe {
        patch_function(os::mem_ptr(off), &patch[..len]);
        assert!(os::N_MPROTECT >= 1 && os::EV_KIND[0] == 1, "OBL:C01.page.protect-first: the pages are made writable before anything is written");
        assert!(os::writable(base + off, len), "OBL:C01.page.cover: every byte of the patch lies in pages made R|W|X by a successful mprotect");
        assert!(!os::FLUSH_UNPROT, "OBL:C01.page.before-write: every range that was written (and flushed) was writable at that moment");
        let k = os::N_MPROTECT - 1;
        assert!(os::PROT_START[k] % ps == 0 && os::PROT_LEN[k] % ps == 0 && os::PROT_LEN[k] > 0, "OBL:C01.page.aligned: mprotect is called on whole pages");
        let j: usize = kani::any();
        kani::assume(j < len);
        assert!(os::MEM[off + j] == patch[j], "OBL:C01.page.written: the patch bytes are in place");
    }
}

/// C01.page.cover — `patch_function(func, patch)` for a function entry at ANY offset of the arena,
/// any patch length 1..=16 and every page size in {16, 32, 4096, 16384, 65536} (the code is
/// parametric in the page size it reads from sysconf; with 16- and 32-byte pages every way of
/// straddling one or two page boundaries occurs inside the 64-byte arena): every written byte lies
/// in pages that a successful mprotect made R|W|X before the write.
#[kani::proof]
#[kani::unwind(26)]
#[kani::stub(crate::injector_core::linuxapi::__clear_cache, os::flush)]
fn c01_page_cover() {
    let off: usize = kani::any();
    let len: usize = kani::any();
    let sel: u8 = kani::any();
    let ps: usize = match sel {
        0 => 16,
        1 => 32,
        2 => 4096,
        3 => 16384,
        _ => 65536,
    };
    kani::assume(len >= 1 && len <= 16);
    kani::assume(off <= os::ARENA - 16);
    page_cover_body(off, len, ps);
    kani::cover!(ps == 16 && off == 13 && len == 5, "COVER:straddles");
    kani::cover!(ps == 16 && off % 16 == 15 && len == 16, "COVER:straddles-two");
    kani::cover!(true, "COVER:end");
}

/// C01.page.cover after a prior call — the same contract must hold whatever `patch_function` did
/// before (it has no licence to remember): an arbitrary earlier patch, then the patch under
/// examination; every byte of the second patch is writable when written.
#[kani::proof]
#[kani::unwind(26)]
#[kani::stub(crate::injector_core::linuxapi::__clear_cache, os::flush)]
fn c01_page_cover_seq() {
    let off0: usize = kani::any();
    let len0: usize = kani::any();
    let off: usize = kani::any();
    let len: usize = kani::any();
    let sel: u8 = kani::any();
    let ps: usize = match sel {
        0 => 16,
        1 => 32,
        _ => 4096,
    };
    kani::assume(len0 >= 1 && len0 <= 16 && off0 <= os::ARENA - 16);
    kani::assume(len >= 1 && len <= 16 && off <= os::ARENA - 16);
    unsafe {
        os::PAGE_SIZE = ps;
    }
    let base = os::mem_base();
    kani::assume(base % ps == 0);
    let patch0: [u8; 16] = kani::any();
    let patch: [u8; 16] = kani::any();
    unsafe {
        patch_function(os::mem_ptr(off0), &patch0[..len0]);
        patch_function(os::mem_ptr(off), &patch[..len]);
        let j: usize = kani::any();
        kani::assume(j < len);
        crate::obligations! {
            (os::writable(base + off, len)) => "OBL:C01.page.cover.seq: after any earlier patch, every byte of this patch still lies in pages made R|W|X",
            (!os::FLUSH_UNPROT) => "OBL:C01.page.before-write.seq: after any earlier patch, every range written was writable at that moment",
            (os::MEM[off + j] == patch[j]) => "OBL:C01.page.written.seq: the patch bytes are in place",
        }
    }
    kani::cover!(ps == 16 && off0 == 1 && len0 == 5 && off == 13 && len == 5, "COVER:same-first-page-then-straddle");
    kani::cover!(true, "COVER:end");
}

/// C17.inject / C17.forward — `inject_asm_code(code, dest)` for every length 0..=16 and placement:
/// exactly one flush request is issued, after the copy, for exactly [dest, dest+len), and the range
/// already holds the final content when it is flushed.
#[kani::proof]
#[kani::unwind(26)]
#[kani::stub(crate::injector_core::linuxapi::__clear_cache, os::flush)]
fn c17_inject() {
    fresh_world();
    unsafe {
        os::SNAP_ON = true;
    }
    let off: usize = kani::any();
    let len: usize = kani::any();
    kani::assume(len <= 16 && off <= os::ARENA - 16);
    let code: [u8; 16] = kani::any();
    unsafe {
        inject_asm_code(&code[..len], os::mem_ptr(off));
        let base = os::mem_base();
        assert!(os::N_FLUSH == 1 && os::FLUSH_START[0] == base + off && os::FLUSH_END[0] == base + off + len, "OBL:C17.inject.range: one flush for exactly the bytes written");
        let j: usize = kani::any();
        kani::assume(j < len);
        assert!(os::MEM[off + j] == code[j] && os::FLUSH_SNAP[0][j] == code[j], "OBL:C17.inject.after-write: the range held its final content when it was flushed");
        let i: usize = kani::any();
        kani::assume(i < os::ARENA);
        assert!(in_range(i, off, len) || os::MEM[i] == SNAPSHOT[i], "OBL:C03.frame.inject: nothing outside [dest, dest+len) is written");
    }
    kani::cover!(len == 16, "COVER:full");
    kani::cover!(true, "COVER:end");
}

/// C11.alloc.twin (bounded stand-in that exists to produce concrete counterexamples for the Verus
/// obligations): the real `allocate_jit_memory_unix` with the page size forced to 64 MiB, so that the
/// search makes at most 5 attempts; every attempt either fails or returns an arbitrary address.
#[kani::proof]
#[kani::unwind(10)]
fn c11_alloc_twin() {
    let src: usize = kani::any();
    kani::assume(src != 0 && src < 0x8000_0000_0000);
    unsafe {
        os::PAGE_SIZE = 0x400_0000;
        let mut k = 0;
        while k < os::MAXMAP {
            let ok: bool = kani::any();
            os::MMAP_MODE[k] = if ok { os::MMAP_INT } else { os::MMAP_FAIL };
            let a: usize = kani::any();
            kani::assume(a != 0 && a != usize::MAX && a < 0x1_0000_0000_0000);
            // fresh addresses: distinct from the ones handed out before
            let mut j = 0;
            while j < os::MAXMAP {
                if j < k {
                    kani::assume(os::MMAP_ADDR[j] != a);
                }
                j += 1;
            }
            os::MMAP_ADDR[k] = a;
            k += 1;
        }
        ALLOW = bit(K_NOMEM);
        JUSTIFIED = true;
        NEED_LIVE = 0; // at the clean-failure panic nothing that was tried is left mapped
    }
    let p = allocate_jit_memory(&fp_int(src), 12) as usize;
    unsafe {
        let d = p as i128 - src as i128;
        assert!(d >= -0x8000000 && d <= 0x8000000, "OBL:C11.twin.reach: the returned trampoline is within the window");
        assert!(os::live_count() == 1 && !os::BAD_MUNMAP, "OBL:C11.twin.frame: exactly the returned mapping is live; rejected placements were given back with their own address and length");
        assert!(os::LAST_MMAP_LEN == 12, "OBL:C11.twin.size: the mapping has the requested size");
    }
    kani::cover!(src < 0x800_0000, "COVER:clipped-window");
    kani::cover!(unsafe { os::N_MUNMAP } >= 2, "COVER:two-rejections");
    kani::cover!(true, "COVER:end");
}
