//! Child module of `injector_core::common`: may read the private fields of `PatchGuard`.
//! Holds the field accessors used by contracts elsewhere and the obligations on the functions
//! of `common.rs` itself.
#![allow(static_mut_refs, dead_code, unused_imports)]
use super::*;
use crate::verif_rt::*;
use libc::verif as os;

pub(crate) fn g_func(g: &PatchGuard) -> usize {
    g.func_ptr as usize
}
pub(crate) fn g_size(g: &PatchGuard) -> usize {
    g.patch_size
}
pub(crate) fn g_jit(g: &PatchGuard) -> usize {
    g.jit_memory as usize
}
pub(crate) fn g_jit_size(g: &PatchGuard) -> usize {
    g.jit_size
}
pub(crate) fn g_orig(g: &PatchGuard) -> &[u8] {
    &g.original_bytes
}

pub(crate) fn fp(p: *const u8) -> FuncPtrInternal {
    unsafe { FuncPtrInternal::new(std::ptr::NonNull::new(p as *mut ()).unwrap()) }
}
pub(crate) fn fp_int(a: usize) -> FuncPtrInternal {
    unsafe { FuncPtrInternal::new(std::ptr::NonNull::new(a as *mut ()).unwrap()) }
}

/// Harness prologue: symbolic arena content, default OS behaviour.
pub(crate) fn fresh_world() {
    unsafe {
        os::MEM = kani::any();
        os::PAGE_SIZE = 4096;
    }
    snapshot();
}
