//! Child module of `interface::injector`: sees `LOCK_FUNCTION`, the private fields of `InjectorPP`,
//! `Preventer` and the builders. Obligations on the public interface (protocol code).
#![allow(static_mut_refs, dead_code, unused_imports, unused_unsafe)]
use super::*;
use crate::injector_core::common::verif_common::*;
use crate::injector_core::internal::verif_internal::*;
use crate::verif_rt::oracle::*;
use crate::verif_rt::*;
use libc::verif as os;
use std::sync::atomic::{AtomicUsize, Ordering};
use std::sync::TryLockError;

const A: usize = os::ARENA;

// ---- ghost probes -----------------------------------------------------------------------------

/// Is the process-wide guard held right now? (probe: a try_lock that would block)
pub(crate) fn lock_held() -> bool {
    match LOCK_FUNCTION.inner.try_lock() {
        Err(TryLockError::WouldBlock) => true,
        _ => false,
    }
}


/// monitor bound onto the OS model's event hook: every mmap / mprotect / munmap / flush (hence every
/// code write, which is always followed by its flush and preceded by its mprotect) happens under the lock
fn mon_event(kind: u8) {
    assert!(lock_held(), "OBL:C04.events.inside: every OS-visible step of installing or restoring (map, protect, write+flush, unmap) happens while the process-wide guard is held");
    unsafe {
        MON_SEEN[(kind & 7) as usize] += 1;
    }
}
static mut MON_SEEN: [usize; 8] = [0; 8];

/// a `&'static str` over the first `len` bytes of `buf` (printable ASCII assumed by the caller)
unsafe fn as_static_str(buf: &[u8], len: usize) -> &'static str {
    std::mem::transmute::<&str, &'static str>(std::str::from_utf8_unchecked(&buf[..len]))
}

fn refusal(kinds: u32, justified: bool) {
    unsafe {
        ALLOW = kinds;
        JUSTIFIED = justified;
        NEED_NO_EVENTS = true;
        NEED_MEM_EQ = true;
        NEED_LIVE = 0;
    }
}

/// The async builder obtained through the library's own entry points (every field is filled the way the
/// library fills it, whatever fields it has); only the poll function's address is then replaced by the
/// target under test. `None` = the unchecked entry point.
fn async_builder<'a>(inj: &'a mut InjectorPP, target: FuncPtrInternal, sig: Option<&'static str>) -> WhenCalledBuilderAsync<'a> {
    let mut fut = std::future::ready(0u32);
    let pinned = std::pin::Pin::new(&mut fut);
    let mut b = match sig {
        Some(s) => inj.when_called_async((pinned, s)),
        None => unsafe { inj.when_called_async_unchecked(pinned) },
    };
    b.when = WhenCalled::new(target);
    b
}

fn arena_fp(off: usize, sig: &'static str) -> FuncPtr {
    unsafe { FuncPtr::new(os::mem_ptr(off) as *const (), sig) }
}
fn int_fp(a: usize, sig: &'static str) -> FuncPtr {
    unsafe { FuncPtr::new(a as *const (), sig) }
}

// ---- C01.flavour.*: every installation flavour hands the core exactly the two pointers ---------

macro_rules! flavour_prologue {
    ($src:ident, $fake:ident) => {
        fresh_world();
        let $src: usize = kani::any();
        let $fake: usize = kani::any();
        kani::assume($src != 0 && $fake != 0);
    };
}

fn flavour_epilogue(src: usize, fake: usize, inj: InjectorPP) {
    unsafe {
        crate::obligations! {
            (REC_CALLS == 1) => "OBL:C01.flavour.once: one installation request reaches the core exactly once",
            (REC_SRC == src) => "OBL:C01.flavour.src: the core is asked to patch exactly the function given to when_called*",
            (REC_IS_BOOL || REC_TARGET == fake) => "OBL:C01.flavour.target: the core is asked to redirect to exactly the replacement given to will_*",
            (inj.guards.len() == 1) => "OBL:C02.guard.kept: the injector keeps the guard of every installation until it is dropped",
        }
    }
    std::mem::forget(inj);
    kani::cover!(true, "COVER:end");
}

#[kani::proof]
#[kani::unwind(10)]
#[kani::stub(crate::injector_core::internal::WhenCalled::will_execute_guard, rec_will_execute_guard)]
fn c01_flavour_raw() {
    flavour_prologue!(src, fake);
    let mut inj = InjectorPP::new();
    inj.when_called(int_fp(src, "fn()")).will_execute_raw(int_fp(fake, "fn()"));
    flavour_epilogue(src, fake, inj);
}

#[kani::proof]
#[kani::unwind(10)]
#[kani::stub(crate::injector_core::internal::WhenCalled::will_execute_guard, rec_will_execute_guard)]
fn c01_flavour_raw_unchecked() {
    flavour_prologue!(src, fake);
    let mut inj = InjectorPP::new();
    unsafe {
        inj.when_called_unchecked(int_fp(src, "")).will_execute_raw_unchecked(int_fp(fake, ""));
    }
    flavour_epilogue(src, fake, inj);
}

static FLAVOUR_COUNTER: AtomicUsize = AtomicUsize::new(0);

#[kani::proof]
#[kani::unwind(10)]
#[kani::stub(crate::injector_core::internal::WhenCalled::will_execute_guard, rec_will_execute_guard)]
fn c01_flavour_fake_pair() {
    flavour_prologue!(src, fake);
    let with_count: bool = kani::any();
    let mut inj = InjectorPP::new();
    let v = if with_count { CallCountVerifier::WithCount { counter: &FLAVOUR_COUNTER, expected: 0 } } else { CallCountVerifier::Dummy };
    inj.when_called(int_fp(src, "fn()")).will_execute((int_fp(fake, "fn()"), v));
    assert!(inj.verifiers.len() == 1, "OBL:C06.verifier.kept: the call-count verifier lives as long as the injector");
    flavour_epilogue(src, fake, inj);
}

#[kani::proof]
#[kani::unwind(10)]
#[kani::stub(crate::injector_core::internal::WhenCalled::will_return_boolean_guard, rec_will_return_boolean_guard)]
fn c01_flavour_bool() {
    flavour_prologue!(src, fake);
    let v: bool = kani::any();
    let mut inj = InjectorPP::new();
    inj.when_called(int_fp(src, "fn() -> bool")).will_return_boolean(v);
    unsafe {
        assert!(REC_IS_BOOL && REC_BOOL == v, "OBL:C10.value.forwarded: the core is asked to force exactly the requested value");
    }
    flavour_epilogue(src, fake, inj);
}

// ---- C09: the type-check gate over symbolic strings --------------------------------------------

#[cfg(not(verif_long_strings))]
const L: usize = 8;
#[cfg(verif_long_strings)]
const L: usize = 12;

fn sym_str(buf: &mut [u8; L]) -> usize {
    *buf = kani::any();
    let len: usize = kani::any();
    kani::assume(len <= L);
    let mut i = 0;
    while i < L {
        kani::assume(buf[i] >= 0x20 && buf[i] <= 0x7e);
        i += 1;
    }
    len
}

fn bytes_eq(a: &[u8; L], la: usize, b: &[u8; L], lb: usize) -> bool {
    if la != lb {
        return false;
    }
    let mut i = 0;
    let mut eq = true;
    while i < L {
        if i < la && a[i] != b[i] {
            eq = false;
        }
        i += 1;
    }
    eq
}

/// C09.gate.raw (also C05.refuse.sig): through the real `will_execute_raw`, for ALL pairs of
/// printable-ASCII signature strings up to length L: identical text => the installation reaches the core
/// exactly once; any difference => "Signature mismatch" panic raised before any OS event, memory untouched.
#[kani::proof]
#[kani::unwind(18)]
#[kani::stub(crate::injector_core::internal::WhenCalled::will_execute_guard, rec_will_execute_guard)]
fn c09_gate_raw() {
    fresh_world();
    let mut a = [0u8; L];
    let mut b = [0u8; L];
    let la = sym_str(&mut a);
    let lb = sym_str(&mut b);
    let same = bytes_eq(&a, la, &b, lb);
    let (sa, sb) = unsafe { (as_static_str(&a, la), as_static_str(&b, lb)) };
    refusal(bit(K_SIG_MISMATCH), !same);
    let mut inj = InjectorPP::new();
    inj.when_called(arena_fp(0, sa)).will_execute_raw(int_fp(0x1000, sb));
    // reached only if no panic was raised
    unsafe {
        assert!(same, "OBL:C09.gate.raw.refuses: a replacement whose signature text differs is never installed");
        assert!(REC_CALLS == 1 && inj.guards.len() == 1, "OBL:C09.gate.raw.accepts: an identically written signature is installed");
    }
    kani::cover!(la == lb && la > 2, "COVER:accepted-nontrivial");
    std::mem::forget(inj);
    kani::cover!(true, "COVER:end");
}

/// same gate through `will_execute` (the fake! pair form)
#[kani::proof]
#[kani::unwind(18)]
#[kani::stub(crate::injector_core::internal::WhenCalled::will_execute_guard, rec_will_execute_guard)]
fn c09_gate_pair() {
    fresh_world();
    let mut a = [0u8; L];
    let mut b = [0u8; L];
    let la = sym_str(&mut a);
    let lb = sym_str(&mut b);
    let same = bytes_eq(&a, la, &b, lb);
    let (sa, sb) = unsafe { (as_static_str(&a, la), as_static_str(&b, lb)) };
    refusal(bit(K_SIG_MISMATCH), !same);
    let mut inj = InjectorPP::new();
    inj.when_called(arena_fp(0, sa)).will_execute((int_fp(0x1000, sb), CallCountVerifier::Dummy));
    unsafe {
        assert!(same, "OBL:C09.gate.pair.refuses: a fake! whose function type differs is never installed");
        assert!(REC_CALLS == 1 && inj.guards.len() == 1, "OBL:C09.gate.pair.accepts: an identically written type is installed");
    }
    std::mem::forget(inj);
    kani::cover!(true, "COVER:end");
}

/// the async gate: `will_return_async` compares the text recorded by async_func! with async_return!'s
#[kani::proof]
#[kani::unwind(18)]
#[kani::stub(crate::injector_core::internal::WhenCalled::will_execute_guard, rec_will_execute_guard)]
fn c09_gate_async() {
    fresh_world();
    let mut a = [0u8; L];
    let mut b = [0u8; L];
    let la = sym_str(&mut a);
    let lb = sym_str(&mut b);
    let same = bytes_eq(&a, la, &b, lb);
    let (sa, sb) = unsafe { (as_static_str(&a, la), as_static_str(&b, lb)) };
    refusal(bit(K_SIG_MISMATCH), !same);
    let mut inj = InjectorPP::new();
    // the builder is what when_called_async returns; its fields are filled the same way
    let builder = async_builder(&mut inj, fp(os::mem_ptr(0)), Some(sa));
    builder.will_return_async(int_fp(0x1000, sb));
    unsafe {
        assert!(same, "OBL:C09.gate.async.refuses: an async value of another output type is never installed");
        assert!(REC_CALLS == 1 && inj.guards.len() == 1, "OBL:C09.gate.async.accepts: the same output type is installed");
    }
    std::mem::forget(inj);
    kani::cover!(true, "COVER:end");
}

/// checked target paired with an unchecked replacement (and vice versa): the unchecked macros record ""
#[kani::proof]
#[kani::unwind(18)]
#[kani::stub(crate::injector_core::internal::WhenCalled::will_execute_guard, rec_will_execute_guard)]
fn c09_gate_mixed() {
    fresh_world();
    let mut a = [0u8; L];
    let la = sym_str(&mut a);
    kani::assume(la >= 1);
    let sa = unsafe { as_static_str(&a, la) };
    let which: bool = kani::any();
    refusal(bit(K_SIG_MISMATCH), true);
    let mut inj = InjectorPP::new();
    if which {
        inj.when_called(arena_fp(0, sa)).will_execute_raw(int_fp(0x1000, ""));
    } else {
        unsafe { inj.when_called_unchecked(arena_fp(0, sa)) }.will_execute_raw(int_fp(0x1000, sa));
    }
    kani::cover!(true, "COVER:not-refused");
    std::mem::forget(inj);
}

/// C09.null: a null pointer is refused by FuncPtr::new (the implicit `expect` panic) — so no
/// `will_*` call is ever reached with it.
#[kani::proof]
#[kani::unwind(4)]
fn c09_null() {
    unsafe {
        // the refusal may be the implicit `expect` of the pinned tree or an explicit panic! (T4 hook)
        ALLOW = bit(K_NULL);
        JUSTIFIED = true;
        NEED_NO_EVENTS = true;
    }
    let f = unsafe { FuncPtr::new(std::ptr::null(), "fn()") };
    kani::cover!(true, "COVER:constructed-from-null");
    std::mem::forget(f);
}

// ---- C10: the boolean gate ---------------------------------------------------------------------

/// one (gate, expected type, offered type) case of the enumerated family (contracts/gen_sigpairs.py):
/// identical types are installed, structurally different ones are refused before any OS event.
pub(crate) fn pair_case(gate: u8, expected: &'static str, got: &'static str, same_type: bool) {
    fresh_world();
    refusal(bit(K_SIG_MISMATCH), !same_type);
    let mut inj = InjectorPP::new();
    if gate == 0 {
        inj.when_called(arena_fp(0, expected)).will_execute_raw(int_fp(0x1000, got));
    } else if gate == 1 {
        inj.when_called(arena_fp(0, expected)).will_execute((int_fp(0x1000, got), CallCountVerifier::Dummy));
    } else {
        let builder = async_builder(&mut inj, fp(os::mem_ptr(0)), Some(expected));
        builder.will_return_async(int_fp(0x1000, got));
    }
    unsafe {
        assert!(same_type, "OBL:C09.gate.family.refuses: a replacement of a structurally different function type is never installed");
        assert!(REC_CALLS == 1 && inj.guards.len() == 1, "OBL:C09.gate.family.accepts: a replacement of the identically written type is installed");
    }
    kani::cover!(true, "COVER:end");
    std::mem::forget(inj);
}

/// one member of the enumerated signature family (contracts/gen_gate.py): the derivation says whether
/// the return type is bool; the real gate must agree, and a refusal must precede every OS event.
pub(crate) fn gate_case(sig: &'static str, returns_bool: bool) {
    fresh_world();
    refusal(bit(K_NOT_BOOL), !returns_bool);
    let v: bool = kani::any();
    let mut inj = InjectorPP::new();
    inj.when_called(arena_fp(0, sig)).will_return_boolean(v);
    // reached only when the gate accepted
    unsafe {
        assert!(returns_bool, "OBL:C10.gate.refuses: forcing a boolean is refused for a function whose return type is not exactly bool");
        assert!(REC_CALLS == 1 && REC_IS_BOOL && REC_BOOL == v && inj.guards.len() == 1, "OBL:C10.gate.accepts: a function returning bool is accepted and the requested value reaches the installer");
    }
    std::mem::forget(inj);
    kani::cover!(true, "COVER:end");
}

// (A cross-check of the boolean gate on fully symbolic strings was tried and dropped: `str::find` over a
//  symbolic haystack does not get through CBMC in hours; the enumerated signature family of
//  contracts/gen_gate.py — 746 members in the thorough tier — is what decides the gate.)

// ---- C07: counting starts from zero -------------------------------------------------------------

static REUSED_COUNTER: AtomicUsize = AtomicUsize::new(0);

/// C07.reset: whatever the call-site counter holds from earlier installations, after
/// `will_execute` it is 0; and nothing else about the verifier changes.
#[kani::proof]
#[kani::unwind(10)]
#[kani::stub(crate::injector_core::internal::WhenCalled::will_execute_guard, rec_will_execute_guard)]
fn c07_reset() {
    fresh_world();
    let prior: usize = kani::any();
    let n: usize = kani::any();
    REUSED_COUNTER.store(prior, Ordering::SeqCst);
    let mut inj = InjectorPP::new();
    inj.when_called(arena_fp(0, "fn()")).will_execute((int_fp(0x1000, "fn()"), CallCountVerifier::WithCount { counter: &REUSED_COUNTER, expected: n }));
    assert!(REUSED_COUNTER.load(Ordering::SeqCst) == 0, "OBL:C07.reset: the call counter is zero when an installation begins, whatever earlier installations left in it");
    match &inj.verifiers[0] {
        CallCountVerifier::WithCount { counter, expected } => {
            assert!(*expected == n && std::ptr::eq(*counter, &REUSED_COUNTER), "OBL:C07.same-verifier: the expectation registered is the one the fake counts against");
        }
        _ => assert!(false, "OBL:C07.same-verifier: the expectation registered is the one the fake counts against"),
    }
    kani::cover!(prior > 0, "COVER:stale-count");
    std::mem::forget(inj);
    kani::cover!(true, "COVER:end");
}

// ---- C04: mutual exclusion (sequential containment; schedules by the assumed Mutex contract) ----

#[kani::proof]
#[kani::unwind(26)]
#[kani::stub(crate::verif_rt::event_hook, mon_event)]
#[kani::stub(crate::injector_core::linuxapi::__clear_cache, os::flush)]
#[kani::stub(crate::injector_core::common::allocate_jit_memory, allocate_jit_memory_contract)]
fn c04_injector_holds() {
    fresh_world();
    let fake: usize = kani::any();
    kani::assume(fake != 0 && fake <= isize::MAX as usize);
    let as_bool: bool = kani::any();
    unsafe {
        os::MMAP_MODE[0] = os::MMAP_ARENA;
        os::MMAP_OFF[0] = 40;
    }
    assert!(!lock_held(), "OBL:C04.initially-free: nobody holds the guard before an injector exists");
    let mut inj = InjectorPP::new();
    assert!(lock_held(), "OBL:C04.new.holds: a live injector holds the process-wide guard");
    if as_bool {
        inj.when_called(arena_fp(8, "fn() -> bool")).will_return_boolean(true);
    } else {
        inj.when_called(arena_fp(8, "fn()")).will_execute_raw(int_fp(fake, "fn()"));
    }
    assert!(lock_held(), "OBL:C04.new.holds.after-install: the guard is still held after an installation");
    assert!(unsafe { MON_SEEN[4] == 1 && MON_SEEN[1] == 1 && MON_SEEN[3] == 2 }, "OBL:C04.events.seen: the installation's map, protect and two write+flush steps went through the monitor");
    drop(inj);
    // restoration events were monitored too (mon_* assert the lock at each)
    assert!(unsafe { MON_SEEN[2] == 1 && MON_SEEN[1] == 2 && MON_SEEN[3] >= 3 }, "OBL:C04.restore.seen: restoration's protect, write+flush and unmap went through the monitor, before the release");
    assert!(!lock_held(), "OBL:C04.released: dropping the injector releases the guard");
    let again = InjectorPP::new();
    assert!(lock_held(), "OBL:C04.reusable: a new injector can be created afterwards");
    std::mem::forget(again);
    kani::cover!(true, "COVER:end");
}

#[kani::proof]
#[kani::unwind(10)]
fn c04_preventer_holds() {
    assert!(!lock_held(), "OBL:C04.initially-free: nobody holds the guard before a preventer exists");
    let p = InjectorPP::prevent();
    assert!(lock_held(), "OBL:C04.prevent.holds: a live preventer holds the same process-wide guard an injector needs");
    assert!(p.is_active(), "OBL:C04.prevent.active: a live preventer reports itself active");
    assert!(unsafe { os::N_EVENTS } == 0, "OBL:C04.prevent.pure: creating a preventer touches no memory");
    drop(p);
    assert!(!lock_held(), "OBL:C04.prevent.released: dropping the preventer releases the guard");
    assert!(unsafe { os::N_EVENTS } == 0, "OBL:C04.prevent.pure.drop: dropping a preventer touches no memory");
    let inj = InjectorPP::default();
    assert!(lock_held(), "OBL:C04.default.holds: InjectorPP::default() takes the guard like new()");
    std::mem::forget(inj);
    kani::cover!(true, "COVER:end");
}

// The poisoned arm of `NoPoisonMutex::lock` cannot be driven under Kani: its std is built with
// panic=abort, where `PoisonError::new` itself panics and a mutex is never poisoned (tried: stub of
// std::thread::panicking around a guard drop -> never poisoned; stub of Mutex::lock returning
// Err(PoisonError::new(guard)) -> PoisonError::new panics). That arm is covered by type only.

// ---- C02.order / C02.cycle / C12.cycle / C05.dropglue: the real drop glue over install histories --

static HIST_COUNTER: AtomicUsize = AtomicUsize::new(0);

/// one installation of the history: target among two functions at 16-byte pitch (offsets 0 and 16),
/// kind raw or boolean, trampoline slot k in the far object (12-byte absolute entry form).
fn hist_install_c(inj: &mut InjectorPP, k: usize, second: bool, as_bool: bool) -> usize {
    let off = if second { 16 } else { 0 };
    unsafe {
        os::MMAP_MODE[k] = os::MMAP_FAR;
    }
    if as_bool {
        inj.when_called(arena_fp(off, "fn() -> bool")).will_return_boolean(kani::any());
    } else {
        let fake: usize = kani::any();
        kani::assume(fake != 0 && fake <= isize::MAX as usize);
        inj.when_called(arena_fp(off, "fn()")).will_execute_raw(int_fp(fake, "fn()"));
    }
    off
}

fn hist_install(inj: &mut InjectorPP, k: usize) -> usize {
    hist_install_c(inj, k, kani::any(), kani::any())
}

/// history given as bit patterns: bit i of `targets` = i-th installation goes to the second function,
/// bit i of `kinds` = i-th installation is a forced boolean
fn hist_body(k_installs: usize, targets: u8, kinds: u8) {
    fresh_world();
    kani::assume(os::far_ptr() as usize <= isize::MAX as usize - 64 && os::mem_base() <= isize::MAX as usize - A);
    let live0 = os::live_count();
    let mut inj = InjectorPP::new();
    let mut i = 0;
    while i < k_installs {
        let off = hist_install_c(&mut inj, i, (targets >> i) & 1 == 1, (kinds >> i) & 1 == 1);
        // "the most recent installation for a function is the one in effect"
        unsafe {
            let far = os::far_ptr() as usize + 16 * i;
            assert!(x86_lands(&os::MEM[off..off + 12], os::mem_base() + off) == Some(far), "OBL:C02.latest-wins: the entry leads to the trampoline of the most recent installation");
        }
        i += 1;
    }
    assert!(inj.guards.len() == k_installs, "OBL:C02.guard.kept: one guard per installation is kept until drop");
    drop(inj);
    unsafe {
        let j: usize = kani::any();
        kani::assume(j < A);
        crate::obligations! {
            (os::MEM[j] == SNAPSHOT[j]) => "OBL:C02.order: after the injector is gone every byte of code memory is what it was before it existed",
            (os::live_count() == live0 && os::N_MUNMAP == k_installs && !os::BAD_MUNMAP) => "OBL:C12.cycle: every trampoline mapped during the lifetime is released exactly once; the live set is what it was",
            (!lock_held()) => "OBL:C02.cycle.lock: the guard is free again, so the next lifetime starts from the same state",
        }
    }
    kani::cover!(true, "COVER:end");
}

macro_rules! cycle_case {
    ($name:ident, $k:expr, $targets:expr, $kinds:expr) => {
        #[kani::proof]
        #[kani::unwind(14)]
        #[kani::stub(crate::injector_core::linuxapi::__clear_cache, os::flush)]
        #[kani::stub(crate::injector_core::common::allocate_jit_memory, allocate_jit_memory_contract)]
        fn $name() {
            hist_body($k, $targets, $kinds);
        }
    };
}
// one whole lifetime on the real code (new -> install -> drop): post-state == pre-state
cycle_case!(c02_cycle_raw, 1, 0b0, 0b0);
cycle_case!(c02_cycle_bool, 1, 0b1, 0b1);
// (two real installations in one injector exhaust CBMC's array post-processing: 65 GB / >10 min,
//  measured; the order of restoration for longer histories is therefore decided modularly below)

/// stands for the core in the order obligations
fn tagged_guard(src: usize) -> PatchGuard {
    unsafe {
        let k = REC_CALLS;
        REC_CALLS += 1;
        // the guard keeps the REAL target address (restoring zero bytes there) and owns a tagged
        // trampoline mapping at the never-dereferenced address 0x10000*(k+1): the drop of guard k is
        // seen by the OS model as munmap(0x10000*(k+1))
        os::MMAP_MODE[k] = os::MMAP_INT;
        os::MMAP_ADDR[k] = 0x10000 * (k + 1);
        let p = libc::mmap_impl(std::ptr::null_mut(), 8, 7, 0x22, -1, 0);
        os::N_EVENTS = 0;
        PatchGuard::new(src as *mut u8, Vec::new(), 0, p as *mut u8, 8)
    }
}

static mut TAG_LAST_KIND: u8 = 0; // 1 = replacement, 2 = forced boolean
static mut TAG_LAST_VALUE: bool = false;

fn tagging_will_execute_guard(w: WhenCalled, _target: FuncPtrInternal) -> PatchGuard {
    unsafe {
        TAG_LAST_KIND = 1;
    }
    tagged_guard(when_src(&w))
}

fn tagging_will_return_boolean_guard(w: WhenCalled, _value: bool) -> PatchGuard {
    unsafe {
        TAG_LAST_KIND = 2;
        TAG_LAST_VALUE = _value;
    }
    tagged_guard(when_src(&w))
}

/// C02.order over the installation FLAVOURS (also C14: fake / re-fake of the same async function):
/// every installation's guard is kept (nothing is restored or released before the injector goes away),
/// and the drop glue then restores newest-first.
fn flavour_epilogue_order(inj: InjectorPP, k: usize) {
    assert!(inj.guards.len() == k, "OBL:C02.guard.kept.flavours: every installation flavour keeps its guard until the injector is dropped (re-faking the same function included)");
    assert!(unsafe { os::N_EVENTS } == 0, "OBL:C02.no-early-restore: nothing is restored or released while the injector lives, so the most recent installation stays in effect");
    drop(inj);
    unsafe {
        assert!(os::N_MUNMAP == k && !os::BAD_MUNMAP && os::live_count() == 0, "OBL:C02.order.once.flavours: every guard is dropped exactly once");
        let j: usize = kani::any();
        kani::assume(j < k);
        assert!(os::UNMAP_ORDER[j] == 0x10000 * (k - j), "OBL:C02.order.reverse.flavours: guards of all flavours are dropped in reverse order of installation");
    }
    kani::cover!(true, "COVER:end");
}

/// fake / re-fake / re-fake of the SAME async function (checked and unchecked forms) in one injector
#[kani::proof]
#[kani::unwind(10)]
#[kani::stub(crate::injector_core::internal::WhenCalled::will_execute_guard, tagging_will_execute_guard)]
#[kani::stub(crate::injector_core::linuxapi::__clear_cache, os::flush)]
#[kani::stub(crate::verif_rt::event_hook, mon_event)]
fn c02_order_async_refake() {
    let mut inj = InjectorPP::new();
    let t = 0x1000usize;
    let b1 = async_builder(&mut inj, fp_int(t), Some("P"));
    b1.will_return_async(int_fp(0x2000, "P"));
    let b2 = async_builder(&mut inj, fp_int(t), None);
    unsafe { b2.will_return_async_unchecked(int_fp(0x3000, "")) };
    let b3 = async_builder(&mut inj, fp_int(t), Some("P"));
    b3.will_return_async(int_fp(0x4000, "P"));
    flavour_epilogue_order(inj, 3);
}

/// the minimal re-fake: the same async function faked twice
#[kani::proof]
#[kani::unwind(10)]
#[kani::stub(crate::injector_core::internal::WhenCalled::will_execute_guard, tagging_will_execute_guard)]
#[kani::stub(crate::injector_core::linuxapi::__clear_cache, os::flush)]
fn c02_order_async_refake2() {
    let mut inj = InjectorPP::new();
    let t = 0x1000usize;
    let b1 = async_builder(&mut inj, fp_int(t), None);
    unsafe { b1.will_return_async_unchecked(int_fp(0x2000, "")) };
    let b2 = async_builder(&mut inj, fp_int(t), None);
    unsafe { b2.will_return_async_unchecked(int_fp(0x3000, "")) };
    flavour_epilogue_order(inj, 2);
}

/// the same target through each of the four synchronous installation calls in one injector
#[kani::proof]
#[kani::unwind(16)]
#[kani::stub(crate::injector_core::internal::WhenCalled::will_execute_guard, tagging_will_execute_guard)]
#[kani::stub(crate::injector_core::internal::WhenCalled::will_return_boolean_guard, tagging_will_return_boolean_guard)]
#[kani::stub(crate::injector_core::linuxapi::__clear_cache, os::flush)]
#[kani::stub(crate::verif_rt::event_hook, mon_event)]
fn c02_order_sync_flavours() {
    let mut inj = InjectorPP::new();
    let t = 0x1000usize;
    inj.when_called(int_fp(t, "f")).will_execute_raw(int_fp(0x2000, "f"));
    unsafe { inj.when_called_unchecked(int_fp(t, "")).will_execute_raw_unchecked(int_fp(0x2000, "")) };
    inj.when_called(int_fp(t, "f")).will_execute((int_fp(0x2000, "f"), CallCountVerifier::Dummy));
    inj.when_called(int_fp(t, "fn()-> bool")).will_return_boolean(true);
    flavour_epilogue_order(inj, 4);
}

/// forced boolean, then another fake, then a forced boolean again on the same function: the third
/// installation is made, and it is the one in effect. (Concrete values per harness: with symbolic values a
/// variant that keeps a per-injector list of forced functions does not finish in CBMC.)
fn bool_refake_body(v1: bool, middle_bool: bool, v2: bool) {
    let mut inj = InjectorPP::new();
    let t = 0x1000usize;
    inj.when_called(int_fp(t, "fn()-> bool")).will_return_boolean(v1);
    if middle_bool {
        inj.when_called(int_fp(t, "fn()-> bool")).will_return_boolean(!v1);
    } else {
        unsafe { inj.when_called_unchecked(int_fp(t, "")).will_execute_raw_unchecked(int_fp(0x2000, "")) };
    }
    inj.when_called(int_fp(t, "fn()-> bool")).will_return_boolean(v2);
    unsafe {
        assert!(REC_CALLS == 3 && TAG_LAST_KIND == 2 && TAG_LAST_VALUE == v2, "OBL:C02.latest.bool-refake: re-forcing a boolean after another fake on the same function is installed, with the value asked for (the most recent installation is the one in effect)");
    }
    flavour_epilogue_order(inj, 3);
}

macro_rules! bool_refake_case {
    ($name:ident, $v1:expr, $mid:expr, $v2:expr) => {
        #[kani::proof]
        #[kani::unwind(16)]
        #[kani::stub(crate::injector_core::internal::WhenCalled::will_execute_guard, tagging_will_execute_guard)]
        #[kani::stub(crate::injector_core::internal::WhenCalled::will_return_boolean_guard, tagging_will_return_boolean_guard)]
        #[kani::stub(crate::injector_core::linuxapi::__clear_cache, os::flush)]
        #[kani::stub(crate::verif_rt::event_hook, mon_event)]
        fn $name() {
            bool_refake_body($v1, $mid, $v2);
        }
    };
}
bool_refake_case!(c02_bool_refake_tt, true, false, true);
bool_refake_case!(c02_bool_refake_ff, false, false, false);
bool_refake_case!(c02_bool_refake_tf, true, false, false);
bool_refake_case!(c02_bool_refake_tbt, true, true, true);

/// C02.order (modular): for the history length K the real drop glue of `InjectorPP` drops the guards
/// newest-first, each exactly once, all of them before the process-wide guard is released.
/// Together with the per-guard contracts (C02.save / C02.restore, proved on the real installer and
/// the real `PatchGuard::drop`) and the induction lemma `lemma_reverse_restores` this gives
/// byte-exact restoration for every finite history, including repeated targets.
/// (K is concrete per harness: a symbolic K makes the Vec's growth points symbolic and CBMC's
/// array post-processing does not finish — measured >900 s; concrete K=3 takes 12 s.)
fn order_body(k: usize) {
    let mut inj = InjectorPP::new();
    let mut i = 0;
    while i < k {
        unsafe { inj.when_called_unchecked(int_fp(0x1000, "")).will_execute_raw_unchecked(int_fp(0x2000, "")) };
        i += 1;
    }
    assert!(inj.guards.len() == k && unsafe { os::N_EVENTS } == 0, "OBL:C02.guard.kept: one guard per installation is kept, none dropped early");
    drop(inj);
    unsafe {
        assert!(os::N_MUNMAP == k && !os::BAD_MUNMAP && os::live_count() == 0, "OBL:C02.order.once: every guard is dropped exactly once");
        let j: usize = kani::any();
        kani::assume(j < k);
        assert!(os::UNMAP_ORDER[j] == 0x10000 * (k - j), "OBL:C02.order.reverse: guards are dropped in reverse order of installation");
        assert!(!lock_held(), "OBL:C02.order.then-unlock: the process-wide guard is released after the restoration");
    }
    kani::cover!(true, "COVER:end");
}

macro_rules! order_case {
    ($name:ident, $k:expr) => {
        #[kani::proof]
        #[kani::unwind(10)]
        #[kani::stub(crate::injector_core::internal::WhenCalled::will_execute_guard, tagging_will_execute_guard)]
        #[kani::stub(crate::injector_core::linuxapi::__clear_cache, os::flush)]
        #[kani::stub(crate::verif_rt::event_hook, mon_event)]
        fn $name() {
            order_body($k);
        }
    };
}
order_case!(c02_order_k1, 1);
order_case!(c02_order_k2, 2);
order_case!(c02_order_k3, 3);
order_case!(c02_order_k4, 4);
order_case!(c02_order_k5, 5);
order_case!(c02_order_k6, 6);
order_case!(c02_order_k7, 7);

/// C05.dropglue.panicking: the whole drop glue run while the thread is already panicking, with an
/// unsatisfied call-count expectation pending: no (second) panic, everything restored and released.
#[kani::proof]
#[kani::unwind(26)]
#[kani::stub(crate::injector_core::linuxapi::__clear_cache, os::flush)]
#[kani::stub(crate::injector_core::common::allocate_jit_memory, allocate_jit_memory_contract)]
#[kani::stub(std::thread::panicking, ghost_panicking)]
#[kani::stub(crate::verif_rt::event_hook, mon_event)]
fn c05_dropglue_panicking() {
    unsafe {
        PANICKING = false;
    }
    fresh_world();
    kani::assume(os::far_ptr() as usize <= isize::MAX as usize - 64 && os::mem_base() <= isize::MAX as usize - A);
    let mut inj = InjectorPP::new();
    let off = hist_install(&mut inj, 0);
    let _ = off;
    HIST_COUNTER.store(1, Ordering::SeqCst);
    inj.verifiers.push(CallCountVerifier::WithCount { counter: &HIST_COUNTER, expected: 0 });
    inj.verifiers.push(CallCountVerifier::WithCount { counter: &HIST_COUNTER, expected: 7 });
    unsafe {
        PANICKING = true; // a panic is in flight: unwinding is about to run this drop glue
        ALLOW = 0; // so no explicit panic at all may be raised from here on
    }
    drop(inj);
    unsafe {
        PANICKING = false;
        let j: usize = kani::any();
        kani::assume(j < A);
        crate::obligations! {
            (os::MEM[j] == SNAPSHOT[j]) => "OBL:C05.dropglue.restores: unwinding restores every faked function",
            (os::live_count() == 0 && os::N_MUNMAP == 1) => "OBL:C05.dropglue.releases: unwinding releases every trampoline",
            (MON_SEEN[2] == 1 && MON_SEEN[1] >= 2) => "OBL:C04.unwind.restore-inside: the restoration done by unwinding went through the lock monitor (every step happened while the guard was still held)",
            (!lock_held()) => "OBL:C05.dropglue.unlocks: unwinding releases the process-wide guard",
        }
    }
    let again = InjectorPP::new();
    assert!(lock_held(), "OBL:C05.dropglue.usable: a new injector can be created after the unwinding");
    std::mem::forget(again);
    kani::cover!(true, "COVER:end");
}

/// C05 / C06: drop glue when NOT panicking with an unsatisfied expectation: the verdict panic is
/// raised only after every function is restored and every trampoline released.
#[kani::proof]
#[kani::unwind(26)]
#[kani::stub(crate::injector_core::linuxapi::__clear_cache, os::flush)]
#[kani::stub(crate::injector_core::common::allocate_jit_memory, allocate_jit_memory_contract)]
fn c05_verdict_after_restore() {
    fresh_world();
    kani::assume(os::far_ptr() as usize <= isize::MAX as usize - 64 && os::mem_base() <= isize::MAX as usize - A);
    let mut inj = InjectorPP::new();
    let _ = hist_install(&mut inj, 0);
    HIST_COUNTER.store(1, Ordering::SeqCst);
    inj.verifiers.push(CallCountVerifier::WithCount { counter: &HIST_COUNTER, expected: 0 });
    unsafe {
        ALLOW = bit(K_VERDICT);
        JUSTIFIED = true;
        NEED_MEM_EQ = true; // at the verdict panic the code is already restored
        NEED_LIVE = 0; // and no trampoline is left mapped
    }
    drop(inj);
    kani::cover!(true, "COVER:no-verdict-panic");
}
