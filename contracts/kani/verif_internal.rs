//! Child module of `injector_core::internal`: recorders that stand for `WhenCalled::will_execute_guard`
//! / `will_return_boolean_guard` where a caller (the public interface) is checked against what it hands
//! to the core, not against the core's body.
#![allow(static_mut_refs, dead_code, unused_imports)]
use super::*;
use crate::injector_core::common::verif_common::*;
use libc::verif as os;

pub(crate) static mut REC_CALLS: usize = 0;
pub(crate) static mut REC_SRC: usize = 0;
pub(crate) static mut REC_TARGET: usize = 0;
pub(crate) static mut REC_IS_BOOL: bool = false;
pub(crate) static mut REC_BOOL: bool = false;
/// number of OS events seen when the core was entered (must be 0 for "refuse before write" duals)
pub(crate) static mut REC_EVENTS_AT_ENTRY: usize = 0;

pub(crate) fn when_src(w: &WhenCalled) -> usize {
    w.func_ptr.as_ptr() as usize
}

fn inert_guard(src: usize) -> PatchGuard {
    // a guard whose drop restores zero bytes and owns no mapping
    PatchGuard::new(src as *mut u8, Vec::new(), 0, std::ptr::null_mut(), 0)
}

pub(crate) fn rec_will_execute_guard(w: WhenCalled, target: FuncPtrInternal) -> PatchGuard {
    unsafe {
        REC_CALLS += 1;
        crate::verif_rt::CORE_CALLS += 1;
        REC_SRC = w.func_ptr.as_ptr() as usize;
        REC_TARGET = target.as_ptr() as usize;
        REC_IS_BOOL = false;
        REC_EVENTS_AT_ENTRY = os::N_EVENTS;
        inert_guard(REC_SRC)
    }
}

pub(crate) fn rec_will_return_boolean_guard(w: WhenCalled, value: bool) -> PatchGuard {
    unsafe {
        REC_CALLS += 1;
        crate::verif_rt::CORE_CALLS += 1;
        REC_SRC = w.func_ptr.as_ptr() as usize;
        REC_IS_BOOL = true;
        REC_BOOL = value;
        REC_EVENTS_AT_ENTRY = os::N_EVENTS;
        inert_guard(REC_SRC)
    }
}

/// C01.flavour.dispatch — the architecture dispatch of `internal.rs` hands the x86-64 installer exactly
/// the two pointers it was given (real body, real installer, trampoline observed in the arena).
#[kani::proof]
#[kani::unwind(26)]
#[kani::stub(crate::injector_core::linuxapi::__clear_cache, os::flush)]
#[kani::stub(crate::injector_core::common::allocate_jit_memory, allocate_jit_memory_contract)]
fn c01_dispatch() {
    use crate::verif_rt::oracle::*;
    fresh_world();
    let fake: usize = kani::any();
    kani::assume(fake != 0 && fake <= isize::MAX as usize);
    let is_bool: bool = kani::any();
    let v: bool = kani::any();
    unsafe {
        os::MMAP_MODE[0] = os::MMAP_ARENA;
        os::MMAP_OFF[0] = 40;
    }
    let base = os::mem_base();
    let w = WhenCalled::new(fp(os::mem_ptr(8)));
    let g = if is_bool { w.will_return_boolean_guard(v) } else { w.will_execute_guard(fp_int(fake)) };
    unsafe {
        assert!(g_func(&g) == base + 8, "OBL:C01.flavour.dispatch.src: the installer patches exactly the function handed to the builder");
        assert!(x86_lands(&os::MEM[8..13], base + 8) == Some(base + 40), "OBL:C01.flavour.dispatch.entry: entry jumps to the trampoline");
        if is_bool {
            assert!(x86_mov_ret_value(&os::MEM[40..48]) == Some(v as u64), "OBL:C01.flavour.dispatch.bool: the boolean trampoline returns the requested value");
        } else {
            assert!(x86_lands(&os::MEM[40..52], base + 40) == Some(fake), "OBL:C01.flavour.dispatch.target: the trampoline jumps to exactly the replacement handed in");
        }
    }
    kani::cover!(is_bool, "COVER:bool");
    kani::cover!(!is_bool, "COVER:raw");
    std::mem::forget(g);
    kani::cover!(true, "COVER:end");
}
