//! Run-time support of the proof harnesses inside the extracted crate.
//!
//! `on_panic` is the T4 hook: the extractor inserts a call to it immediately before every explicit
//! `panic!` of the real code. Kani ends a path at a panic and has no unwinding, so the hook is the
//! one place where an obligation can talk about the state *at* the panic: it asserts the
//! clean-failure predicate the running harness asked for and then ends the path
//! (`kani::assume(false)`), exactly as the `panic!` that follows would. Code after a call in a
//! harness is therefore reached only when no explicit panic was raised.
#![allow(static_mut_refs, dead_code)]

/// A list of obligations checked INDEPENDENTLY of one another. Kani's `assert!` assumes its condition
/// after checking it, so in a sequence of assertions a failing one masks those that follow. Here every
/// condition is evaluated first (no assumption), then a nondeterministic choice picks which one this
/// execution asserts: each obligation is decided on all executions, whatever happens to the others.
#[macro_export]
macro_rules! obligations {
    ( $( $cond:expr => $msg:literal ),+ $(,)? ) => {{
        let __conds = [ $( $cond ),+ ];
        let __k: usize = kani::any();
        let mut __i = 0usize;
        $(
            if __k == __i {
                assert!(__conds[__i], $msg);
            }
            __i += 1;
        )+
        let _ = __i;
    }};
}

pub const K_SIG_MISMATCH: u32 = 1;
pub const K_NOT_BOOL: u32 = 2;
pub const K_MPROTECT: u32 = 3;
pub const K_NOMEM: u32 = 4;
pub const K_RANGE: u32 = 5;
pub const K_OVER: u32 = 6;
pub const K_ARGS: u32 = 7;
pub const K_VERDICT: u32 = 8;
pub const K_NULL: u32 = 10;

/// bit set of panic kinds the harness allows (bit k = kind k); 0 = no explicit panic may happen
pub static mut ALLOW: u32 = 0;
/// the refusal must precede every OS event (nothing mapped, protected, flushed)
pub static mut NEED_NO_EVENTS: bool = false;
/// the code arena must be byte-identical to SNAPSHOT at the panic
pub static mut NEED_MEM_EQ: bool = false;
/// number of live trampoline mappings that may be pending at the panic
pub static mut NEED_LIVE: usize = usize::MAX;
pub static mut NEED_FLUSHED_OFF: usize = 0;
pub static mut NEED_FLUSHED_LEN: usize = 0;
/// harness-specific justification of the panic (set by the harness *before* the call):
/// the panic is legitimate only if this flag is true
pub static mut JUSTIFIED: bool = true;
/// side-effect counter of the `fake!` harnesses: must still equal SIDE_AT_CALL at a rejecting panic
pub static mut SIDE: u32 = 0;
pub static mut SIDE_AT_CALL: u32 = 0;
pub static mut NEED_SIDE_EQ: bool = false;

// ---- fake! arm harnesses (C06 / C08) -----------------------------------------------------------
/// the `times:` operand of the generated instantiations (symbolic N)
pub static mut TIMES_N: usize = 0;
pub fn times_n() -> usize {
    unsafe { TIMES_N }
}
/// the `assign:` block of the generated instantiations bumps this observable side-effect counter
pub fn bump_side() {
    unsafe {
        SIDE = SIDE.wrapping_add(1);
    }
}
/// the `&mut i32` argument handed to the fake lives here so that the hook can see it
pub static mut ARG_CELL: i32 = 0;
pub static mut ARG_AT_CALL: i32 = 0;
/// true when the arguments of the call in flight fail the `when` condition
pub static mut REJECT_MUST_BE_ARGS: bool = false;
pub static mut PROBE: Option<&'static std::sync::atomic::AtomicUsize> = None;
pub static mut PROBE_AT_CALL: usize = 0;
pub static mut N_RMW: usize = 0;
pub static mut N_LOAD: usize = 0;
pub static mut N_STORE: usize = 0;

pub fn counting_fetch_add(this: &std::sync::atomic::AtomicUsize, val: usize, _o: std::sync::atomic::Ordering) -> usize {
    unsafe {
        N_RMW += 1;
        let p = this.as_ptr();
        let old = *p;
        *p = old.wrapping_add(val);
        old
    }
}
pub fn counting_load(this: &std::sync::atomic::AtomicUsize, _o: std::sync::atomic::Ordering) -> usize {
    unsafe {
        N_LOAD += 1;
        *this.as_ptr()
    }
}
pub fn counting_store(this: &std::sync::atomic::AtomicUsize, val: usize, _o: std::sync::atomic::Ordering) {
    unsafe {
        N_STORE += 1;
        *this.as_ptr() = val;
    }
}

#[cfg(kani)]
pub static mut SNAPSHOT: [u8; libc::verif::ARENA] = [0; libc::verif::ARENA];

/// Called by the OS model at every event (1 mprotect, 2 munmap, 3 flush, 4 mmap), *before* the event
/// takes effect. Empty; a harness binds a monitor onto `event_hook` with #[kani::stub].
pub fn event_hook(_kind: u8) {}

/// number of installation requests that reached the core (incremented by the recorders that stand for
/// `WhenCalled::will_execute_guard` / `will_return_boolean_guard`)
pub static mut CORE_CALLS: usize = 0;

/// T7: number of PatchGuard values constructed so far
pub static mut GUARDS_CREATED: usize = 0;
pub fn on_guard_new() {
    unsafe {
        GUARDS_CREATED += 1;
    }
}

/// ghost "a panic is in flight" flag, bound onto std::thread::panicking with #[kani::stub]
pub static mut PANICKING: bool = false;
pub fn ghost_panicking() -> bool {
    unsafe { PANICKING }
}

pub const fn bit(k: u32) -> u32 {
    1u32 << k
}

/// T9: a run-time CPU feature test; the properties quantify over every CPU
#[cfg(kani)]
pub fn any_cpu_feature() -> bool {
    kani::any()
}
#[cfg(not(kani))]
pub fn any_cpu_feature() -> bool {
    false
}

#[cfg(kani)]
pub fn snapshot() {
    unsafe {
        SNAPSHOT = libc::verif::MEM;
    }
}

#[cfg(kani)]
pub fn mem_equals_snapshot() -> bool {
    unsafe { libc::verif::MEM == SNAPSHOT }
}

#[cfg(kani)]
pub fn on_panic(kind: u32, _line: u32) {
    unsafe {
        kani::cover!(true, "COVER:panic-hook");
        // a site the extractor could not classify (new panic in a place it does not know): undecided, not a violation
        assert!(kind != 0, "UNCLASSIFIED explicit panic site reached (the extractor does not know what kind of refusal this is)");
        assert!(kind < 32 && (ALLOW & bit(kind)) != 0, "OBL:panic.kind: an explicit panic of a kind this obligation does not allow was raised");
        assert!(JUSTIFIED, "OBL:panic.justified: the library refused although the obligation's acceptance condition holds");
        if NEED_NO_EVENTS {
            assert!(libc::verif::N_EVENTS == 0, "OBL:panic.before-write: refusal must be raised before anything is mapped, protected or written");
            assert!(CORE_CALLS == 0, "OBL:panic.before-install: a refused installation never reaches the installer (it is refused before, not after, the function is patched)");
        }
        if NEED_MEM_EQ {
            // for-all over the arena by a nondeterministic index (loop-free)
            let i: usize = kani::any();
            kani::assume(i < libc::verif::ARENA);
            assert!(libc::verif::MEM[i] == SNAPSHOT[i], "OBL:panic.untouched: code memory must be untouched when the installation is refused");
        }
        if NEED_FLUSHED_LEN != 0 {
            // for-all over the range by a nondeterministic index: the byte holds what it held at the most recent
            // flush that covered it (a covering flush was requested after the last write to it)
            let i: usize = kani::any();
            kani::assume(i >= NEED_FLUSHED_OFF && i < NEED_FLUSHED_OFF + NEED_FLUSHED_LEN && i < libc::verif::ARENA);
            let a = libc::verif::mem_base() + i;
            let mut ok = false;
            let mut k = 0;
            while k < libc::verif::MAXFLUSH {
                if k < libc::verif::N_FLUSH && libc::verif::FLUSH_START[k] <= a && a < libc::verif::FLUSH_END[k] {
                    let d = a - libc::verif::FLUSH_START[k];
                    ok = d < libc::verif::SNAP && libc::verif::FLUSH_SNAP[k][d] == libc::verif::MEM[i];
                }
                k += 1;
            }
            assert!(libc::verif::MEM[i] == SNAPSHOT[i], "OBL:C17.unwind.restored: when an older guard's restoration fails, the newer guards' functions have already been restored");
            assert!(ok, "OBL:C17.unwind.flushed: every byte (re)written before a restoration fails is already covered by a flush issued after that write — control returns to the user by unwinding, and no later code can make up for a deferred flush");
        }
        if NEED_LIVE != usize::MAX {
            assert!(libc::verif::live_count() <= NEED_LIVE, "OBL:panic.no-pending-mapping: no rejected placement may be left mapped at the panic");
        }
        if NEED_SIDE_EQ {
            assert!(SIDE == SIDE_AT_CALL && ARG_CELL == ARG_AT_CALL, "OBL:panic.no-side-effect: a rejected or over-budget call must have no side effect");
            if kind == K_ARGS {
                assert!(REJECT_MUST_BE_ARGS, "OBL:panic.args-only-when-cond-fails: the unexpected-arguments panic is raised only when `when` is false");
                if let Some(ctr) = PROBE {
                    assert!(ctr.load(std::sync::atomic::Ordering::SeqCst) == PROBE_AT_CALL, "OBL:panic.rejected-not-counted: a call rejected by `when` is not counted");
                }
            }
            if kind == K_OVER {
                assert!(!REJECT_MUST_BE_ARGS && PROBE_AT_CALL >= TIMES_N, "OBL:panic.over-only-when-budget-spent: the over-call panic is raised only for a matching call after N matching calls");
            }
        }
    }
    // the panic! that follows ends this execution; nothing after it belongs to the obligation
    kani::assume(false);
}

#[cfg(not(kani))]
pub fn on_panic(_kind: u32, _line: u32) {}

/// Independent instruction oracles (trusted base): written from the ISA manuals, not from the
/// emitters. Anything outside the recognised subset decodes to `None`.
pub mod oracle {
    /// Where does control go when the CPU executes `code` placed at address `at`?
    /// Recognises exactly `E9 rel32` and `48 B8 imm64 ; FF E0`.
    pub fn x86_lands(code: &[u8], at: usize) -> Option<usize> {
        if code.len() >= 5 && code[0] == 0xE9 {
            let rel = i32::from_le_bytes([code[1], code[2], code[3], code[4]]);
            // next-instruction address + sign-extended displacement, modulo 2^64
            return Some((at as u64).wrapping_add(5).wrapping_add(rel as i64 as u64) as usize);
        }
        if code.len() >= 12 && code[0] == 0x48 && code[1] == 0xB8 && code[10] == 0xFF && code[11] == 0xE0 {
            let imm = u64::from_le_bytes([
                code[2], code[3], code[4], code[5], code[6], code[7], code[8], code[9],
            ]);
            return Some(imm as usize);
        }
        None
    }

    /// Architectural effect of the recognised x86-64 sequences, as a bit set of what is written.
    pub const W_RAX: u32 = 1;
    pub const W_OTHER_REG: u32 = 2;
    pub const W_STACK: u32 = 4;
    pub const W_MEMORY: u32 = 8;
    pub const POP_RET: u32 = 16; // pops the return address exactly like a normal `ret`
    pub fn x86_effect(code: &[u8]) -> Option<u32> {
        if code.len() >= 5 && code[0] == 0xE9 {
            return Some(0); // jmp rel32: no register, flag, stack or memory write
        }
        if code.len() >= 12 && code[0] == 0x48 && code[1] == 0xB8 && code[10] == 0xFF && code[11] == 0xE0 {
            return Some(W_RAX); // mov rax, imm64 ; jmp rax
        }
        if code.len() >= 8 && code[0] == 0x48 && code[1] == 0xC7 && code[2] == 0xC0 && code[7] == 0xC3 {
            return Some(W_RAX | POP_RET); // mov rax, simm32 ; ret
        }
        None
    }
    /// value left in rax by `48 C7 C0 imm32 ; C3`
    pub fn x86_mov_ret_value(code: &[u8]) -> Option<u64> {
        if code.len() >= 8 && code[0] == 0x48 && code[1] == 0xC7 && code[2] == 0xC0 && code[7] == 0xC3 {
            let imm = i32::from_le_bytes([code[3], code[4], code[5], code[6]]);
            return Some(imm as i64 as u64);
        }
        None
    }

    // ---- AArch64 (A64) ------------------------------------------------------------------------
    // Field layouts restated from the Arm ARM (C6.2): MOVZ/MOVK (wide immediate), BR, RET, B, ADRP,
    // ADD (immediate), NOP. Not derived from the emitters under verification.
    #[derive(Clone, Copy, PartialEq, Eq)]
    pub enum A64 {
        Movz { sf: bool, hw: u8, imm16: u16, rd: u8 },
        Movk { sf: bool, hw: u8, imm16: u16, rd: u8 },
        Br { rn: u8 },
        Ret { rn: u8 },
        B { imm26: u32 },
        Adrp { rd: u8, immhi_lo: u32 },
        AddImm { sh: bool, imm12: u16, rn: u8, rd: u8 },
        Nop,
    }

    pub fn a64_decode(w: u32) -> Option<A64> {
        if w == 0xD503_201F {
            return Some(A64::Nop);
        }
        // move wide immediate: sf opc(2) 100101 hw(2) imm16 Rd
        if (w >> 23) & 0x3F == 0b100101 {
            let sf = (w >> 31) & 1 == 1;
            let opc = (w >> 29) & 3;
            let hw = ((w >> 21) & 3) as u8;
            let imm16 = ((w >> 5) & 0xFFFF) as u16;
            let rd = (w & 31) as u8;
            if !sf && hw >= 2 {
                return None; // unallocated
            }
            if opc == 0b10 {
                return Some(A64::Movz { sf, hw, imm16, rd });
            }
            if opc == 0b11 {
                return Some(A64::Movk { sf, hw, imm16, rd });
            }
            return None;
        }
        // BR: 1101011 0 0 00 11111 0000 0 0 Rn 00000 ; RET: opc = 0010
        if w & 0xFFFF_FC1F == 0xD61F_0000 {
            return Some(A64::Br { rn: ((w >> 5) & 31) as u8 });
        }
        if w & 0xFFFF_FC1F == 0xD65F_0000 {
            return Some(A64::Ret { rn: ((w >> 5) & 31) as u8 });
        }
        // B: 0 00101 imm26
        if w >> 26 == 0b000101 {
            return Some(A64::B { imm26: w & 0x03FF_FFFF });
        }
        // ADRP: 1 immlo(2) 10000 immhi(19) Rd
        if (w >> 31) == 1 && (w >> 24) & 0x1F == 0b10000 {
            let immlo = (w >> 29) & 3;
            let immhi = (w >> 5) & 0x7FFFF;
            return Some(A64::Adrp { rd: (w & 31) as u8, immhi_lo: (immhi << 2) | immlo });
        }
        // ADD (immediate), 64-bit, no flags: 1 0 0 100010 sh imm12 Rn Rd
        if w >> 23 == 0b1_0_0_100010 {
            return Some(A64::AddImm { sh: (w >> 22) & 1 == 1, imm12: ((w >> 10) & 0xFFF) as u16, rn: ((w >> 5) & 31) as u8, rd: (w & 31) as u8 });
        }
        None
    }

    #[derive(Clone, Copy, PartialEq, Eq)]
    pub enum A64End {
        /// control left the sequence to this address
        Jump(u64),
        /// returned to the caller (address in x30)
        Return,
        /// fell off the end / undecodable
        Stuck,
    }

    pub struct A64Run {
        pub end: A64End,
        /// bit i set = general register i was written
        pub written: u32,
        pub x0: u64,
    }

    fn sext(v: u64, bits: u32) -> u64 {
        let sh = 64 - bits;
        (((v << sh) as i64) >> sh) as u64
    }

    /// Execute the straight-line sequence `words` placed at `pc`, from register file `regs`.
    pub fn a64_run(words: &[u32], n: usize, pc: u64, regs0: &[u64; 32]) -> A64Run {
        let mut regs = *regs0;
        let mut written: u32 = 0;
        let mut i = 0;
        while i < n {
            let here = pc.wrapping_add(4 * i as u64);
            match a64_decode(words[i]) {
                None => return A64Run { end: A64End::Stuck, written, x0: regs[0] },
                Some(A64::Nop) => {}
                Some(A64::Movz { sf, hw, imm16, rd }) => {
                    if rd == 31 {
                        return A64Run { end: A64End::Stuck, written, x0: regs[0] };
                    }
                    let v = (imm16 as u64) << (16 * hw as u32);
                    regs[rd as usize] = if sf { v } else { v & 0xFFFF_FFFF };
                    written |= 1 << rd;
                }
                Some(A64::Movk { sf, hw, imm16, rd }) => {
                    if rd == 31 {
                        return A64Run { end: A64End::Stuck, written, x0: regs[0] };
                    }
                    let sh = 16 * hw as u32;
                    let v = (regs[rd as usize] & !(0xFFFFu64 << sh)) | ((imm16 as u64) << sh);
                    regs[rd as usize] = if sf { v } else { v & 0xFFFF_FFFF };
                    written |= 1 << rd;
                }
                Some(A64::Br { rn }) => {
                    let t = if rn == 31 { 0 } else { regs[rn as usize] };
                    return A64Run { end: A64End::Jump(t), written, x0: regs[0] };
                }
                Some(A64::Ret { rn }) => {
                    if rn == 30 {
                        return A64Run { end: A64End::Return, written, x0: regs[0] };
                    }
                    let t = if rn == 31 { 0 } else { regs[rn as usize] };
                    return A64Run { end: A64End::Jump(t), written, x0: regs[0] };
                }
                Some(A64::B { imm26 }) => {
                    let off = sext((imm26 as u64) << 2, 28);
                    return A64Run { end: A64End::Jump(here.wrapping_add(off)), written, x0: regs[0] };
                }
                Some(A64::Adrp { rd, immhi_lo }) => {
                    if rd == 31 {
                        return A64Run { end: A64End::Stuck, written, x0: regs[0] };
                    }
                    let off = sext((immhi_lo as u64) << 12, 33);
                    regs[rd as usize] = (here & !0xFFF).wrapping_add(off);
                    written |= 1 << rd;
                }
                Some(A64::AddImm { sh, imm12, rn, rd }) => {
                    if rd == 31 || rn == 31 {
                        return A64Run { end: A64End::Stuck, written, x0: regs[0] }; // SP forms are outside the subset
                    }
                    let imm = if sh { (imm12 as u64) << 12 } else { imm12 as u64 };
                    regs[rd as usize] = regs[rn as usize].wrapping_add(imm);
                    written |= 1 << rd;
                }
            }
            i += 1;
        }
        A64Run { end: A64End::Stuck, written, x0: regs[0] }
    }

    // ---- 32-bit ARM (A32 / T32) ----------------------------------------------------------------
    // LDR (literal) and BX restated from the Arm ARM (A8.8.64 / A8.8.27) incl. the Align(PC,4) rule;
    // the AAPCS32 callee-saved set is r4-r11, sp (r13); lr (r14) must hold the return address at entry.
    pub const AAPCS32_MUST_PRESERVE: u32 = 0x0FF0 | (1 << 13) | (1 << 14);

    pub struct ArmEntry {
        /// address the literal load reads from
        pub load_addr: u32,
        /// register loaded and the register branched through
        pub rt: u8,
        pub rm: u8,
        /// bit set of general registers written before control leaves the patch
        pub written: u32,
    }

    fn le16(p: &[u8; 12], at: usize) -> u16 {
        u16::from_le_bytes([p[at], p[at + 1]])
    }
    fn le32(p: &[u8; 12], at: usize) -> u32 {
        u32::from_le_bytes([p[at], p[at + 1], p[at + 2], p[at + 3]])
    }

    /// Decode the 12-byte entry patch placed at `dest` and executed in ARM (thumb = false) or Thumb state.
    pub fn arm_entry_decode(p: &[u8; 12], dest: u32, thumb: bool) -> Option<ArmEntry> {
        if !thumb {
            if dest % 4 != 0 {
                return None;
            }
            let w0 = le32(p, 0);
            let w1 = le32(p, 4);
            // cond = AL, LDR (literal): cond 010 P=1 U B=0 W=0 L=1 Rn=1111 Rt imm12
            if w0 >> 28 != 0xE || (w0 & 0x0F7F_0000) != 0x051F_0000 {
                return None;
            }
            let add = (w0 >> 23) & 1 == 1;
            let rt = ((w0 >> 12) & 0xF) as u8;
            let imm12 = w0 & 0xFFF;
            let base = dest.wrapping_add(8) & !3; // Align(PC, 4), PC = address of the instruction + 8
            let load_addr = if add { base.wrapping_add(imm12) } else { base.wrapping_sub(imm12) };
            // BX Rm: cond 0001 0010 1111 1111 1111 0001 Rm
            if w1 >> 28 != 0xE || (w1 & 0x0FFF_FFF0) != 0x012F_FF10 {
                return None;
            }
            let rm = (w1 & 0xF) as u8;
            if rt == 15 {
                return None;
            }
            return Some(ArmEntry { load_addr, rt, rm, written: 1 << rt });
        }
        if dest % 2 != 0 {
            return None;
        }
        let mut at = 0usize;
        let mut h = le16(p, at);
        // Thumb NOPs: the hint 0xBF00, or the classic `mov r8, r8` (0x46C0), which writes r8 with itself
        if h == 0xBF00 || h == 0x46C0 {
            at += 2;
            h = le16(p, at);
        }
        // LDR (literal), encoding T1: 01001 Rt imm8
        if h & 0xF800 != 0x4800 {
            return None;
        }
        let rt = ((h >> 8) & 7) as u8;
        let imm8 = (h & 0xFF) as u32;
        let pc = dest.wrapping_add(at as u32).wrapping_add(4); // PC = address of the instruction + 4
        let load_addr = (pc & !3).wrapping_add(imm8 * 4);
        let b = le16(p, at + 2);
        // BX Rm, encoding T1: 010001 11 0 Rm 000
        if b & 0xFF87 != 0x4700 {
            return None;
        }
        let rm = ((b >> 3) & 0xF) as u8;
        Some(ArmEntry { load_addr, rt, rm, written: 1 << rt })
    }

    // helpers for the function contracts on the A64 emitters (bit arrays -> numbers)
    pub fn pack2(b: &[bool; 2]) -> u8 {
        (b[0] as u8) | ((b[1] as u8) << 1)
    }
    pub fn pack5(b: &[bool; 5]) -> u8 {
        (b[0] as u8) | ((b[1] as u8) << 1) | ((b[2] as u8) << 2) | ((b[3] as u8) << 3) | ((b[4] as u8) << 4)
    }
    pub fn pack32(b: &[bool; 32]) -> u32 {
        // loop-free on purpose (used inside function contracts)
        ((b[0] as u32) << 0) | ((b[1] as u32) << 1) | ((b[2] as u32) << 2) | ((b[3] as u32) << 3) | ((b[4] as u32) << 4) | ((b[5] as u32) << 5) | ((b[6] as u32) << 6) | ((b[7] as u32) << 7) | ((b[8] as u32) << 8) | ((b[9] as u32) << 9) | ((b[10] as u32) << 10) | ((b[11] as u32) << 11) | ((b[12] as u32) << 12) | ((b[13] as u32) << 13) | ((b[14] as u32) << 14) | ((b[15] as u32) << 15) | ((b[16] as u32) << 16) | ((b[17] as u32) << 17) | ((b[18] as u32) << 18) | ((b[19] as u32) << 19) | ((b[20] as u32) << 20) | ((b[21] as u32) << 21) | ((b[22] as u32) << 22) | ((b[23] as u32) << 23) | ((b[24] as u32) << 24) | ((b[25] as u32) << 25) | ((b[26] as u32) << 26) | ((b[27] as u32) << 27) | ((b[28] as u32) << 28) | ((b[29] as u32) << 29) | ((b[30] as u32) << 30) | ((b[31] as u32) << 31)
    }
}
