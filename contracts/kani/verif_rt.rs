//! Run-time support of the proof harnesses inside the extracted crate.
//!
//! `on_panic` is the T4 hook: the extractor inserts a call to it immediately before every explicit
//! `panic!` of the real code. Kani ends a path at a panic and has no unwinding, so the hook is the
//! one place where an obligation can talk about the state *at* the panic: it asserts the
//! clean-failure predicate the running harness asked for and then ends the path
//! (`kani::assume(false)`), exactly as the `panic!` that follows would. Code after a call in a
//! harness is therefore reached only when no explicit panic was raised.
#![allow(static_mut_refs, dead_code)]

pub const K_SIG_MISMATCH: u32 = 1;
pub const K_NOT_BOOL: u32 = 2;
pub const K_MPROTECT: u32 = 3;
pub const K_NOMEM: u32 = 4;
pub const K_RANGE: u32 = 5;
pub const K_OVER: u32 = 6;
pub const K_ARGS: u32 = 7;
pub const K_VERDICT: u32 = 8;

/// bit set of panic kinds the harness allows (bit k = kind k); 0 = no explicit panic may happen
pub static mut ALLOW: u32 = 0;
/// the refusal must precede every OS event (nothing mapped, protected, flushed)
pub static mut NEED_NO_EVENTS: bool = false;
/// the code arena must be byte-identical to SNAPSHOT at the panic
pub static mut NEED_MEM_EQ: bool = false;
/// number of live trampoline mappings that may be pending at the panic
pub static mut NEED_LIVE: usize = usize::MAX;
/// harness-specific justification of the panic (set by the harness *before* the call):
/// the panic is legitimate only if this flag is true
pub static mut JUSTIFIED: bool = true;
/// side-effect counter of the `fake!` harnesses: must still equal SIDE_AT_CALL at a rejecting panic
pub static mut SIDE: u32 = 0;
pub static mut SIDE_AT_CALL: u32 = 0;
pub static mut NEED_SIDE_EQ: bool = false;

#[cfg(kani)]
pub static mut SNAPSHOT: [u8; libc::verif::ARENA] = [0; libc::verif::ARENA];

/// Called by the OS model at every event (1 mprotect, 2 munmap, 3 flush, 4 mmap), *before* the event
/// takes effect. Empty; a harness binds a monitor onto `event_hook` with #[kani::stub].
pub fn event_hook(_kind: u8) {}

pub const fn bit(k: u32) -> u32 {
    1u32 << k
}

#[cfg(kani)]
pub fn snapshot() {
    unsafe {
        SNAPSHOT = libc::verif::MEM;
    }
}

#[cfg(kani)]
pub fn mem_equals_snapshot() -> bool {
    unsafe { libc::verif::MEM == SNAPSHOT }
}

#[cfg(kani)]
pub fn on_panic(kind: u32, _line: u32) {
    unsafe {
        kani::cover!(true, "COVER:panic-hook");
        assert!(kind < 32 && (ALLOW & bit(kind)) != 0, "OBL:panic.kind: an explicit panic of a kind this obligation does not allow was raised");
        assert!(JUSTIFIED, "OBL:panic.justified: the library refused although the obligation's acceptance condition holds");
        if NEED_NO_EVENTS {
            assert!(libc::verif::N_EVENTS == 0, "OBL:panic.before-write: refusal must be raised before anything is mapped, protected or written");
        }
        if NEED_MEM_EQ {
            // for-all over the arena by a nondeterministic index (loop-free)
            let i: usize = kani::any();
            kani::assume(i < libc::verif::ARENA);
            assert!(libc::verif::MEM[i] == SNAPSHOT[i], "OBL:panic.untouched: code memory must be untouched when the installation is refused");
        }
        if NEED_LIVE != usize::MAX {
            assert!(libc::verif::live_count() <= NEED_LIVE, "OBL:panic.no-pending-mapping: no rejected placement may be left mapped at the panic");
        }
        if NEED_SIDE_EQ {
            assert!(SIDE == SIDE_AT_CALL, "OBL:panic.no-side-effect: a rejected call must have no side effect");
        }
    }
    // the panic! that follows ends this execution; nothing after it belongs to the obligation
    kani::assume(false);
}

#[cfg(not(kani))]
pub fn on_panic(_kind: u32, _line: u32) {}

/// Independent instruction oracles (trusted base): written from the ISA manuals, not from the
/// emitters. Anything outside the recognised subset decodes to `None`.
pub mod oracle {
    /// Where does control go when the CPU executes `code` placed at address `at`?
    /// Recognises exactly `E9 rel32` and `48 B8 imm64 ; FF E0`.
    pub fn x86_lands(code: &[u8], at: usize) -> Option<usize> {
        if code.len() >= 5 && code[0] == 0xE9 {
            let rel = i32::from_le_bytes([code[1], code[2], code[3], code[4]]);
            // next-instruction address + sign-extended displacement, modulo 2^64
            return Some((at as u64).wrapping_add(5).wrapping_add(rel as i64 as u64) as usize);
        }
        if code.len() >= 12 && code[0] == 0x48 && code[1] == 0xB8 && code[10] == 0xFF && code[11] == 0xE0 {
            let imm = u64::from_le_bytes([
                code[2], code[3], code[4], code[5], code[6], code[7], code[8], code[9],
            ]);
            return Some(imm as usize);
        }
        None
    }

    /// Architectural effect of the recognised x86-64 sequences, as a bit set of what is written.
    pub const W_RAX: u32 = 1;
    pub const W_OTHER_REG: u32 = 2;
    pub const W_STACK: u32 = 4;
    pub const W_MEMORY: u32 = 8;
    pub const POP_RET: u32 = 16; // pops the return address exactly like a normal `ret`
    pub fn x86_effect(code: &[u8]) -> Option<u32> {
        if code.len() >= 5 && code[0] == 0xE9 {
            return Some(0); // jmp rel32: no register, flag, stack or memory write
        }
        if code.len() >= 12 && code[0] == 0x48 && code[1] == 0xB8 && code[10] == 0xFF && code[11] == 0xE0 {
            return Some(W_RAX); // mov rax, imm64 ; jmp rax
        }
        if code.len() >= 8 && code[0] == 0x48 && code[1] == 0xC7 && code[2] == 0xC0 && code[7] == 0xC3 {
            return Some(W_RAX | POP_RET); // mov rax, simm32 ; ret
        }
        None
    }
    /// value left in rax by `48 C7 C0 imm32 ; C3`
    pub fn x86_mov_ret_value(code: &[u8]) -> Option<u64> {
        if code.len() >= 8 && code[0] == 0x48 && code[1] == 0xC7 && code[2] == 0xC0 && code[7] == 0xC3 {
            let imm = i32::from_le_bytes([code[3], code[4], code[5], code[6]]);
            return Some(imm as i64 as u64);
        }
        None
    }
}
