//! C09.sig.* — every macro form records exactly `type_name::<T>()` of the function-pointer type it
//! was given (unchecked forms record ""), for every member of an enumerated family of function types;
//! C09.family.distinct — structurally different members have different names (so the textual gate
//! separates them). All strings are produced by the compiler that builds this harness.
#![allow(static_mut_refs, dead_code, unused_imports, unused_unsafe, improper_ctypes_definitions)]
use super::*;
use std::any::type_name;

fn f0() {}
fn f1(_a: i32) {}
fn f2(_a: i32, _b: i32) {}
fn f3(_a: i32, _b: i32, _c: i32) {}
fn f4(_a: u32) {}
fn f5(a: i32) -> i32 {
    a
}
fn f6(a: i32) -> u32 {
    a as u32
}
fn f7(_a: &i32) {}
fn f8(_a: &mut i32) {}
unsafe fn f9(_a: i32) {}
extern "C" fn f10(_a: i32) {}
unsafe extern "C" fn f11(_a: i32) {}
unsafe extern "system" fn f12(_a: i32) {}
unsafe extern "C" fn f13(a: i32) -> i32 {
    a
}
unsafe extern "system" fn f14(a: i32) -> i32 {
    a
}
unsafe fn f15(a: i32) -> i32 {
    a
}
fn g<T>(_a: T) {}
fn gg<T, U>(_a: T, _b: U) {}

type T0 = fn();
type T1 = fn(i32);
type T2 = fn(i32, i32);
type T3 = fn(i32, i32, i32);
type T4 = fn(u32);
type T5 = fn(i32) -> i32;
type T6 = fn(i32) -> u32;
type T7 = fn(&i32);
type T8 = fn(&mut i32);
type T9 = unsafe fn(i32);
type T10 = extern "C" fn(i32);
type T11 = unsafe extern "C" fn(i32);
type T12 = unsafe extern "system" fn(i32);
type T13 = unsafe extern "C" fn(i32) -> i32;
type T14 = unsafe extern "system" fn(i32) -> i32;
type T15 = unsafe fn(i32) -> i32;

fn names() -> [&'static str; 16] {
    [
        type_name::<T0>(), type_name::<T1>(), type_name::<T2>(), type_name::<T3>(), type_name::<T4>(), type_name::<T5>(),
        type_name::<T6>(), type_name::<T7>(), type_name::<T8>(), type_name::<T9>(), type_name::<T10>(), type_name::<T11>(),
        type_name::<T12>(), type_name::<T13>(), type_name::<T14>(), type_name::<T15>(),
    ]
}

macro_rules! sig_is {
    ($e:expr, $t:ty, $msg:literal) => {{
        let fp: FuncPtr = $e;
        assert!(fp.signature == type_name::<$t>(), $msg);
        assert!(!fp.func_ptr_internal.as_ptr().is_null(), "OBL:C09.sig.nonnull: the recorded pointer is the function's address");
    }};
}

/// func!(f, T) (both cases) and closure!(c, T)
#[kani::proof]
#[kani::unwind(70)]
fn c09_sig_func_explicit() {
    sig_is!(crate::func!(f0, fn()), T0, "OBL:C09.sig.func.T0: func!(f, T) records type_name::<T>()");
    sig_is!(crate::func!(f1, fn(i32)), T1, "OBL:C09.sig.func.T1: func!(f, T) records type_name::<T>()");
    sig_is!(crate::func!(f2, fn(i32, i32)), T2, "OBL:C09.sig.func.T2: func!(f, T) records type_name::<T>()");
    sig_is!(crate::func!(f3, fn(i32, i32, i32)), T3, "OBL:C09.sig.func.T3: func!(f, T) records type_name::<T>()");
    sig_is!(crate::func!(f4, fn(u32)), T4, "OBL:C09.sig.func.T4: func!(f, T) records type_name::<T>()");
    sig_is!(crate::func!(f5, fn(i32) -> i32), T5, "OBL:C09.sig.func.T5: func!(f, T) records type_name::<T>()");
    sig_is!(crate::func!(f6, fn(i32) -> u32), T6, "OBL:C09.sig.func.T6: func!(f, T) records type_name::<T>()");
    sig_is!(crate::func!(f7, fn(&i32)), T7, "OBL:C09.sig.func.T7: func!(f, T) records type_name::<T>()");
    sig_is!(crate::func!(f8, fn(&mut i32)), T8, "OBL:C09.sig.func.T8: func!(f, T) records type_name::<T>()");
    sig_is!(crate::func!(f9, unsafe fn(i32)), T9, "OBL:C09.sig.func.T9: func!(f, T) records type_name::<T>()");
    sig_is!(crate::func!(f10, extern "C" fn(i32)), T10, "OBL:C09.sig.func.T10: func!(f, T) records type_name::<T>()");
    sig_is!(crate::func!(f11, unsafe extern "C" fn(i32)), T11, "OBL:C09.sig.func.T11: func!(f, T) records type_name::<T>()");
    sig_is!(crate::func!(f12, unsafe extern "system" fn(i32)), T12, "OBL:C09.sig.func.T12: func!(f, T) records type_name::<T>()");
    // case 1: generic function given as name::<types>
    sig_is!(crate::func!(g::<i32>, fn(i32)), T1, "OBL:C09.sig.func.generic1: func!(g::<A>, T) records type_name::<T>()");
    sig_is!(crate::func!(gg::<i32, i32>, fn(i32, i32)), T2, "OBL:C09.sig.func.generic2: func!(g::<A, B>, T) records type_name::<T>()");
    sig_is!(crate::closure!(|_a: i32| {}, fn(i32)), T1, "OBL:C09.sig.closure.T1: closure!(c, T) records type_name::<T>()");
    sig_is!(crate::closure!(|a: i32| -> i32 { a }, fn(i32) -> i32), T5, "OBL:C09.sig.closure.T5: closure!(c, T) records type_name::<T>()");
    kani::cover!(true, "COVER:end");
}

/// the sugar arms of func!
#[kani::proof]
#[kani::unwind(70)]
fn c09_sig_func_sugar() {
    sig_is!(crate::func!(fn (f5)(i32) -> i32), T5, "OBL:C09.sig.sugar.fn-ret: func!(fn (f)(A) -> R)");
    sig_is!(crate::func!(func_info: fn (f5)(i32) -> i32), T5, "OBL:C09.sig.sugar.info.fn-ret: func!(func_info: fn (f)(A) -> R)");
    sig_is!(crate::func!(fn (f1)(i32)), T1, "OBL:C09.sig.sugar.fn-unit: func!(fn (f)(A))");
    sig_is!(crate::func!(func_info: fn (f2)(i32, i32)), T2, "OBL:C09.sig.sugar.info.fn-unit: func!(func_info: fn (f)(A, B))");
    sig_is!(crate::func!(unsafe{} fn (f15)(i32) -> i32), T15, "OBL:C09.sig.sugar.unsafe-ret: func!(unsafe{} fn (f)(A) -> R)");
    sig_is!(crate::func!(func_info: unsafe fn (f15)(i32) -> i32), T15, "OBL:C09.sig.sugar.info.unsafe-ret: func!(func_info: unsafe fn (f)(A) -> R)");
    sig_is!(crate::func!(unsafe{} extern "C" fn (f13)(i32) -> i32), T13, "OBL:C09.sig.sugar.c-ret: func!(unsafe{} extern \"C\" fn (f)(A) -> R)");
    sig_is!(crate::func!(func_info: unsafe extern "C" fn (f13)(i32) -> i32), T13, "OBL:C09.sig.sugar.info.c-ret: func!(func_info: unsafe extern \"C\" fn (f)(A) -> R)");
    sig_is!(crate::func!(unsafe{} extern "system" fn (f14)(i32) -> i32), T14, "OBL:C09.sig.sugar.system-ret: func!(unsafe{} extern \"system\" fn (f)(A) -> R)");
    sig_is!(crate::func!(func_info: unsafe extern "system" fn (f14)(i32) -> i32), T14, "OBL:C09.sig.sugar.info.system-ret: func!(func_info: unsafe extern \"system\" fn (f)(A) -> R)");
    // unit-returning unsafe / extern sugar arms spell the unit return explicitly ("-> ()"): the name they
    // record is that of `unsafe fn(A) -> ()`, which the compiler renders like `unsafe fn(A)`
    sig_is!(crate::func!(unsafe{} fn (f9)(i32)), T9, "OBL:C09.sig.sugar.unsafe-unit: func!(unsafe{} fn (f)(A))");
    sig_is!(crate::func!(func_info: unsafe fn (f9)(i32)), T9, "OBL:C09.sig.sugar.info.unsafe-unit: func!(func_info: unsafe fn (f)(A))");
    sig_is!(crate::func!(unsafe{} extern "C" fn (f11)(i32)), T11, "OBL:C09.sig.sugar.c-unit: func!(unsafe{} extern \"C\" fn (f)(A))");
    sig_is!(crate::func!(func_info: unsafe extern "C" fn (f11)(i32)), T11, "OBL:C09.sig.sugar.info.c-unit: func!(func_info: unsafe extern \"C\" fn (f)(A))");
    sig_is!(crate::func!(unsafe{} extern "system" fn (f12)(i32)), T12, "OBL:C09.sig.sugar.system-unit: func!(unsafe{} extern \"system\" fn (f)(A))");
    sig_is!(crate::func!(func_info: unsafe extern "system" fn (f12)(i32)), T12, "OBL:C09.sig.sugar.info.system-unit: func!(func_info: unsafe extern \"system\" fn (f)(A))");
    kani::cover!(true, "COVER:end");
}

/// the unchecked forms record the empty signature
#[kani::proof]
#[kani::unwind(70)]
fn c09_sig_unchecked() {
    unsafe {
        let a = crate::func_unchecked!(f1);
        assert!(a.signature.is_empty(), "OBL:C09.sig.unchecked.func: func_unchecked!(f) records \"\"");
        let b = crate::func_unchecked!(g::<i32>);
        assert!(b.signature.is_empty(), "OBL:C09.sig.unchecked.generic: func_unchecked!(g::<A>) records \"\"");
        let c = crate::closure_unchecked!(|_a: i32| {}, fn(i32));
        assert!(c.signature.is_empty(), "OBL:C09.sig.unchecked.closure: closure_unchecked!(c, T) records \"\"");
        let d = crate::async_return_unchecked!(7u32, u32);
        assert!(d.signature.is_empty(), "OBL:C09.sig.unchecked.async: async_return_unchecked!(v, T) records \"\"");
    }
    // a non-empty checked signature never equals the unchecked one
    let n = names();
    let i: usize = kani::any();
    kani::assume(i < 16);
    assert!(!n[i].is_empty(), "OBL:C09.sig.checked-nonempty: a checked signature is never the empty text the unchecked forms record");
    kani::cover!(true, "COVER:end");
}

/// every ordered pair of structurally different family members has different names
#[kani::proof]
#[kani::unwind(70)]
fn c09_family_distinct() {
    let n = names();
    let i: usize = kani::any();
    let j: usize = kani::any();
    kani::assume(i < 16 && j < 16 && i != j);
    assert!(n[i] != n[j], "OBL:C09.family.distinct: function types differing in arity, a parameter or return type, reference mutability, unsafety or ABI have different recorded signatures");
    kani::cover!(true, "COVER:end");
}
