//! Obligations on `CallCountVerifier::drop` (verifier.rs).
#![allow(static_mut_refs, dead_code, unused_imports)]
use super::*;
use crate::verif_rt::*;

static VCTR: AtomicUsize = AtomicUsize::new(0);

/// C06.verdict / C05.verifier.quiet — for ALL counts, ALL expectations and both "already panicking"
/// states: dropping the verifier panics if and only if the count differs from the expectation and no
/// panic is in flight; the Dummy verifier never panics.
#[kani::proof]
#[kani::unwind(4)]
#[kani::stub(std::thread::panicking, ghost_panicking)]
fn c06_verdict() {
    let c: usize = kani::any();
    let n: usize = kani::any();
    let p: bool = kani::any();
    let dummy: bool = kani::any();
    VCTR.store(c, Ordering::SeqCst);
    unsafe {
        PANICKING = p;
        ALLOW = bit(K_VERDICT);
        JUSTIFIED = !dummy && c != n && !p;
    }
    let v = if dummy { CallCountVerifier::Dummy } else { CallCountVerifier::WithCount { counter: &VCTR, expected: n } };
    drop(v);
    // reached only if the drop did not panic
    assert!(dummy || c == n || p, "OBL:C06.verdict.panics-when-differs: at scope exit a count different from N raises the verdict panic unless a panic is already in flight");
    assert!(VCTR.load(Ordering::SeqCst) == c, "OBL:C06.verdict.readonly: verification does not change the count");
    kani::cover!(!dummy && c != n && p, "COVER:quiet-while-panicking");
    kani::cover!(!dummy && c == n && !p, "COVER:satisfied");
    kani::cover!(true, "COVER:end");
}
