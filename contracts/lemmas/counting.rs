// C06.lemma.count — over the per-call contract of a fake built with `times: N`:
//   a matching call performs ONE atomic read-modify-write that returns prev and stores prev+1
//   (C06.arm<k>.rmw / .counts), returns iff prev < N and panics iff prev >= N (C06.arm<k>.budget);
//   non-matching calls do not touch the counter (panic.rejected-not-counted).
// Atomic RMWs on one location are totally ordered (axiom of the memory model), so in ANY interleaving
// of k matching calls over any number of threads the k values of `prev` are exactly 0, 1, .., k-1.
// The call that obtained prev = i is called "call i" below.
use vstd::prelude::*;
verus! {

pub open spec fn admitted(i: nat, n: nat) -> bool { i < n }

/// number of calls among call 0 .. call k-1 that return normally
pub open spec fn returned(k: nat, n: nat) -> nat
    decreases k,
{
    if k == 0 { 0 } else { returned((k - 1) as nat, n) + if admitted((k - 1) as nat, n) { 1nat } else { 0nat } }
}

pub open spec fn min(a: nat, b: nat) -> nat { if a <= b { a } else { b } }

/// OBL:C06.lemma.count — exactly min(k, N) of k matching calls return, the other k - min(k, N) panic
pub proof fn lemma_count(k: nat, n: nat)
    ensures returned(k, n) == min(k, n),
    decreases k,
{
    if k > 0 {
        lemma_count((k - 1) as nat, n);
    }
}

/// the counter after k matching calls (each added exactly one)
pub open spec fn final_count(k: nat) -> nat { k }

/// verdict at scope exit (C06.verdict): panics iff count != N and no panic is in flight
pub open spec fn verdict_panics(count: nat, n: nat, panicking: bool) -> bool { count != n && !panicking }

/// OBL:C06.lemma.verdict — the scope-exit verdict panics iff the number of matching calls differs
/// from N (when not already unwinding); and exactly N calls were admitted iff k >= N.
pub proof fn lemma_verdict(k: nat, n: nat)
    ensures verdict_panics(final_count(k), n, false) <==> k != n,
            k <= n ==> returned(k, n) == k,
            k > n ==> returned(k, n) == n,
            !verdict_panics(final_count(k), n, true),
{
    lemma_count(k, n);
}

/// OBL:C06.lemma.later-calls-panic — every matching call after the N-th panics at the call
pub proof fn lemma_later_calls_panic(i: nat, n: nat)
    requires i >= n,
    ensures !admitted(i, n),
{
}

} // verus!
fn main() {}
