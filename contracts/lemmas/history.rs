// Lemmas over the CONTRACTS of patch_and_guard / PatchGuard::drop (not over code): memory as Seq<u8>,
// an installation overwrites [a, a+n) with the patch and saves what was there; a restoration writes
// the saved bytes back. Proved for every finite history by induction.
use vstd::prelude::*;
verus! {

pub struct Install {
    pub a: int,          // patched address
    pub patch: Seq<u8>,  // bytes written (its length is patch_size)
}

pub open spec fn in_mem(mem: Seq<u8>, i: Install) -> bool {
    0 <= i.a && i.a + i.patch.len() <= mem.len()
}

/// post-condition C02.save: what the guard remembers
pub open spec fn saved(mem: Seq<u8>, i: Install) -> Seq<u8> {
    mem.subrange(i.a, i.a + i.patch.len() as int)
}

/// write `bytes` at `a` (post-condition of patch_function: those bytes, nothing else — C03.frame)
pub open spec fn write_at(mem: Seq<u8>, a: int, bytes: Seq<u8>) -> Seq<u8> {
    Seq::new(mem.len(), |j: int| if a <= j < a + bytes.len() { bytes[j - a] } else { mem[j] })
}

/// install the whole history, oldest first; returns the final memory
pub open spec fn install_all(mem: Seq<u8>, h: Seq<Install>) -> Seq<u8>
    decreases h.len(),
{
    if h.len() == 0 { mem } else { install_all(write_at(mem, h[0].a, h[0].patch), h.subrange(1, h.len() as int)) }
}

pub open spec fn all_in_mem(mem: Seq<u8>, h: Seq<Install>) -> bool {
    forall|k: int| 0 <= k < h.len() ==> in_mem(mem, #[trigger] h[k])
}

/// install the history and then restore NEWEST FIRST, each guard writing back the bytes that were
/// present just before its own installation (C02.restore)
pub open spec fn install_then_restore_reverse(mem: Seq<u8>, h: Seq<Install>) -> Seq<u8>
    decreases h.len(),
{
    if h.len() == 0 {
        mem
    } else {
        let first = h[0];
        let after_first = write_at(mem, first.a, first.patch);
        let inner = install_then_restore_reverse(after_first, h.subrange(1, h.len() as int));
        // guard of `first` is dropped last: it writes back saved(mem, first)
        write_at(inner, first.a, saved(mem, first))
    }
}

proof fn lemma_write_len(mem: Seq<u8>, a: int, b: Seq<u8>)
    ensures write_at(mem, a, b).len() == mem.len(),
{
}

/// OBL:C02.lemma.rev — for every finite history on any memory, restoring in reverse order of
/// installation gives back exactly the initial memory (repeated and overlapping targets included).
pub proof fn lemma_reverse_restores(mem: Seq<u8>, h: Seq<Install>)
    requires all_in_mem(mem, h),
    ensures install_then_restore_reverse(mem, h) =~= mem,
    decreases h.len(),
{
    if h.len() > 0 {
        let first = h[0];
        let after_first = write_at(mem, first.a, first.patch);
        let rest = h.subrange(1, h.len() as int);
        assert(after_first.len() == mem.len());
        assert forall|k: int| 0 <= k < rest.len() implies in_mem(after_first, #[trigger] rest[k]) by {
            assert(rest[k] == h[k + 1]);
            assert(in_mem(mem, h[k + 1]));
        }
        lemma_reverse_restores(after_first, rest);
        let inner = install_then_restore_reverse(after_first, rest);
        assert(inner =~= after_first);
        assert(in_mem(mem, h[0]));
        assert(write_at(inner, first.a, saved(mem, first)) =~= mem);
    }
}

/// restoring in INSTALLATION order (what a Vec dropped front to back does) is wrong in general:
/// counter-model with the same address faked twice.
pub open spec fn install_then_restore_forward_2(mem: Seq<u8>, i0: Install, i1: Install) -> Seq<u8> {
    let m1 = write_at(mem, i0.a, i0.patch);
    let m2 = write_at(m1, i1.a, i1.patch);
    // guard 0 restored first, then guard 1 (which saved m1's bytes)
    write_at(write_at(m2, i0.a, saved(mem, i0)), i1.a, saved(m1, i1))
}

/// OBL:C02.lemma.forward-wrong
pub proof fn lemma_forward_order_is_wrong()
    ensures exists|mem: Seq<u8>, i0: Install, i1: Install| in_mem(mem, i0) && in_mem(mem, i1) && install_then_restore_forward_2(mem, i0, i1) != mem,
{
    let mem = seq![0u8];
    let i0 = Install { a: 0, patch: seq![1u8] };
    let i1 = Install { a: 0, patch: seq![2u8] };
    let r = install_then_restore_forward_2(mem, i0, i1);
    assert(r[0] == 1u8);
    assert(mem[0] == 0u8);
    assert(in_mem(mem, i0) && in_mem(mem, i1) && install_then_restore_forward_2(mem, i0, i1) != mem);
}

/// OBL:C02.lemma.latest — after the whole history is installed, the bytes at the address of the
/// most recent installation are that installation's patch.
pub proof fn lemma_latest_wins(mem: Seq<u8>, h: Seq<Install>)
    requires h.len() > 0, all_in_mem(mem, h),
    ensures install_all(mem, h).len() == mem.len(),
            install_all(mem, h).subrange(h.last().a, h.last().a + h.last().patch.len()) =~= h.last().patch,
    decreases h.len(),
{
    let first = h[0];
    let after_first = write_at(mem, first.a, first.patch);
    let rest = h.subrange(1, h.len() as int);
    assert(in_mem(mem, h[0]));
    if rest.len() == 0 {
        assert(install_all(after_first, rest) == after_first);
        assert(h.last() == first);
    } else {
        assert forall|k: int| 0 <= k < rest.len() implies in_mem(after_first, #[trigger] rest[k]) by {
            assert(rest[k] == h[k + 1]);
            assert(in_mem(mem, h[k + 1]));
        }
        lemma_latest_wins(after_first, rest);
        assert(rest.last() == h.last());
    }
}

/// OBL:C03.lemma.frame — a byte outside every patched range is never changed by the history,
/// neither while installed nor after restoration.
pub proof fn lemma_frame_union(mem: Seq<u8>, h: Seq<Install>, j: int)
    requires all_in_mem(mem, h), 0 <= j < mem.len(),
             forall|k: int| 0 <= k < h.len() ==> !((#[trigger] h[k]).a <= j < h[k].a + h[k].patch.len()),
    ensures install_all(mem, h).len() == mem.len(), install_all(mem, h)[j] == mem[j],
    decreases h.len(),
{
    if h.len() > 0 {
        let first = h[0];
        let after_first = write_at(mem, first.a, first.patch);
        let rest = h.subrange(1, h.len() as int);
        assert(in_mem(mem, h[0]));
        assert forall|k: int| 0 <= k < rest.len() implies in_mem(after_first, #[trigger] rest[k]) && !(rest[k].a <= j < rest[k].a + rest[k].patch.len()) by {
            assert(rest[k] == h[k + 1]);
            assert(in_mem(mem, h[k + 1]));
        }
        lemma_frame_union(after_first, rest, j);
        assert(!(h[0].a <= j < h[0].a + h[0].patch.len()));
    }
}

// ---- C12: live mappings over cycles -----------------------------------------------------------

/// one lifetime: every installation adds one fresh mapping (C11.alloc.frame / C12.own), every guard
/// drop removes exactly its own (C12.release)
pub open spec fn add_all(live: Set<int>, ms: Seq<int>) -> Set<int>
    decreases ms.len(),
{
    if ms.len() == 0 { live } else { add_all(live.insert(ms[0]), ms.subrange(1, ms.len() as int)) }
}

pub open spec fn remove_all(live: Set<int>, ms: Seq<int>) -> Set<int>
    decreases ms.len(),
{
    if ms.len() == 0 { live } else { remove_all(live, ms.subrange(1, ms.len() as int)).remove(ms[0]) }
}

pub open spec fn fresh_distinct(live: Set<int>, ms: Seq<int>) -> bool {
    (forall|k: int| 0 <= k < ms.len() ==> !live.contains(#[trigger] ms[k]))
        && (forall|k: int, l: int| 0 <= k < l < ms.len() ==> ms[k] != ms[l])
}

/// OBL:C12.lemma.live — after a lifetime in which every mapping created is released exactly once
/// (newest first), the live set is what it was; hence after any number of lifetimes.
pub proof fn lemma_live_set(live: Set<int>, ms: Seq<int>)
    requires fresh_distinct(live, ms),
    ensures remove_all(add_all(live, ms), ms) =~= live,
    decreases ms.len(),
{
    if ms.len() > 0 {
        let rest = ms.subrange(1, ms.len() as int);
        let l1 = live.insert(ms[0]);
        assert forall|k: int| 0 <= k < rest.len() implies !l1.contains(#[trigger] rest[k]) by {
            assert(rest[k] == ms[k + 1]);
        }
        assert forall|k: int, l: int| 0 <= k < l < rest.len() implies rest[k] != rest[l] by {
            assert(rest[k] == ms[k + 1] && rest[l] == ms[l + 1]);
        }
        lemma_live_set(l1, rest);
        assert(remove_all(add_all(l1, rest), rest) =~= l1);
        assert(l1.remove(ms[0]) =~= live);
    }
}

} // verus!
fn main() {}
