// Arithmetic lemmas linking the allocator's post-condition (C11.alloc.reach.*) to the reach of the
// branch each architecture writes into the function entry.
use vstd::prelude::*;
verus! {

/// OBL:C11.lemma.x86.rel32 — a trampoline within ±128 MiB (or ±2 GiB - 5) of the function is
/// reachable by the 5-byte `E9 rel32` entry: (jit - (src + 5)) fits in an i32.
pub proof fn lemma_x86_rel32(src: int, jit: int)
    requires 0 <= src < 0x8000_0000_0000, -0x8000000 <= jit - src <= 0x8000000,
    ensures -0x8000_0000 <= jit - (src + 5) <= 0x7FFF_FFFF,
{
}

/// OBL:C11.lemma.a64.b — within [-2^27, 2^27 - 4] and word aligned, the displacement in words fits
/// the signed 26-bit immediate of B
pub proof fn lemma_a64_b(src: int, jit: int)
    requires -0x8000000 <= jit - src <= 0x7FFFFFF, jit % 4 == 0, src % 4 == 0,
    ensures -0x2000000 <= (jit - src) / 4 <= 0x1FFFFFF,
{
}

/// OBL:C11.lemma.a64.adrp — within ±2 GiB the page delta fits the signed 21-bit immediate of ADRP
pub proof fn lemma_a64_adrp(src: int, jit: int)
    requires 0 <= src < 0x8000_0000_0000, 0 <= jit < 0x1_0000_0000_0000, -0x8000_0000 <= jit - src <= 0x8000_0000,
    ensures -0x100000 <= (jit / 4096) - (src / 4096) <= 0xFFFFF,
{
}

} // verus!
fn main() {}
