//! Native confirmation run (NOT a proof): the T1-extracted AArch64 back end executed on the host over a
//! real RWX arena. Nothing written is ever executed; only bytes are compared. Spliced as a child
//! module of patch_arm64.rs by lib/native_ext.py.
use super::*;
use crate::injector_core::common::*;

unsafe fn arena() -> *mut u8 {
    let p = libc::mmap(std::ptr::null_mut(), 4096, libc::PROT_READ | libc::PROT_WRITE | libc::PROT_EXEC, libc::MAP_PRIVATE | libc::MAP_ANONYMOUS, -1, 0);
    assert!(p != libc::MAP_FAILED);
    p as *mut u8
}
unsafe fn fp(p: *mut u8) -> FuncPtrInternal {
    FuncPtrInternal::new(std::ptr::NonNull::new(p as *mut ()).unwrap())
}
unsafe fn snap(p: *const u8) -> Vec<u8> {
    std::slice::from_raw_parts(p, 4096).to_vec()
}

/// C02 over two injector lifetimes: the code behind an entry address changes between them
#[test]
fn verif_native_a64_two_lives() {
    unsafe {
        let base = arena();
        let entry = base.add(64);
        for i in 0..12 {
            *entry.add(i) = 0xA0 + i as u8;
        }
        let before = snap(base);
        let g = PatchArm64::replace_function_with_other_function(fp(entry), fp(0x1234_5678_9AB0usize as *mut u8));
        assert!(snap(base) != before, "nothing was patched");
        drop(g);
        assert!(snap(base) == before, "C02: lifetime 1 not restored");
        for i in 0..12 {
            *entry.add(i) = 0x10 + i as u8;
        }
        let before2 = snap(base);
        let g = PatchArm64::replace_function_return_boolean(fp(entry), true);
        drop(g);
        assert!(snap(base) == before2, "C02: lifetime 2 restored bytes that are not what was there before it");
        let g = PatchArm64::replace_function_with_other_function(fp(entry), fp(0x7000usize as *mut u8));
        drop(g);
        assert!(snap(base) == before2, "C02: lifetime 3 restored bytes that are not what was there before it");
    }
}

/// C02 / C07 nested: the same entry faked twice, dropped newest first
#[test]
fn verif_native_a64_nested() {
    unsafe {
        let base = arena();
        let entry = base.add(128);
        for i in 0..12 {
            *entry.add(i) = 0x40 + i as u8;
        }
        let before = snap(base);
        let g1 = PatchArm64::replace_function_with_other_function(fp(entry), fp(0x5000usize as *mut u8));
        let g2 = PatchArm64::replace_function_return_boolean(fp(entry), false);
        drop(g2);
        drop(g1);
        assert!(snap(base) == before, "C02: not restored after nested installations");
    }
}
