//! Native confirmation run (NOT a proof): the T1-extracted 32-bit ARM back end executed on the host over
//! an arena mapped below 4 GiB (MAP_32BIT), so that the back end's `as u32` addresses are real.
use super::*;
use crate::injector_core::common::*;

unsafe fn arena() -> *mut u8 {
    let p = libc::mmap(std::ptr::null_mut(), 4096, libc::PROT_READ | libc::PROT_WRITE | libc::PROT_EXEC, libc::MAP_PRIVATE | libc::MAP_ANONYMOUS | libc::MAP_32BIT, -1, 0);
    assert!(p != libc::MAP_FAILED);
    assert!((p as usize) < (1usize << 32));
    p as *mut u8
}
unsafe fn fp(a: usize) -> FuncPtrInternal {
    FuncPtrInternal::new(std::ptr::NonNull::new(a as *mut ()).unwrap())
}
unsafe fn snap(p: *const u8) -> Vec<u8> {
    std::slice::from_raw_parts(p, 4096).to_vec()
}

#[test]
fn verif_native_arm_two_lives() {
    unsafe {
        let base = arena();
        for thumb in [0usize, 1usize] {
            let entry = base.add(64 + 32 * thumb);
            for i in 0..12 {
                *entry.add(i) = 0xA0 + i as u8;
            }
            let before = snap(base);
            let g = PatchArm::replace_function_with_other_function(fp(entry as usize | thumb), fp(0x2000_0001));
            assert!(snap(base) != before, "nothing was patched");
            drop(g);
            assert!(snap(base) == before, "C02: lifetime 1 not restored");
            for i in 0..12 {
                *entry.add(i) = 0x10 + i as u8;
            }
            let before2 = snap(base);
            let g = PatchArm::replace_function_with_other_function(fp(entry as usize | thumb), fp(0x3000_0000));
            drop(g);
            assert!(snap(base) == before2, "C02: lifetime 2 restored bytes that are not what was there before it");
        }
    }
}

/// independent decoder of the 12-byte entry sequence: where does the literal load read, and is it followed by an
/// interworking branch through the loaded register? (T32: optional NOP, LDR Rt,[PC,#imm8*4], BX Rt; A32: LDR Rt,[PC,#+/-imm12], BX Rt)
unsafe fn loaded_word(entry: *const u8, thumb: bool) -> Option<u32> {
    let h = |o: usize| u16::from_le_bytes([*entry.add(o), *entry.add(o + 1)]);
    let w = |o: usize| u32::from_le_bytes([*entry.add(o), *entry.add(o + 1), *entry.add(o + 2), *entry.add(o + 3)]);
    let at = entry as usize;
    if thumb {
        let mut o = 0;
        if h(0) == 0xBF00 || h(0) == 0x46C0 {
            o = 2;
        }
        let ldr = h(o);
        if ldr & 0xF800 != 0x4800 {
            return None;
        }
        let (rt, imm) = ((ldr >> 8) & 7, (ldr & 0xFF) as usize * 4);
        let bx = h(o + 2);
        if bx & 0xFF87 != 0x4700 || ((bx >> 3) & 0xF) != rt {
            return None;
        }
        let load = ((at + o + 4) & !3) + imm;
        if load < at || load + 4 > at + 12 {
            return None;
        }
        Some(w(load - at))
    } else {
        let ldr = w(0);
        if ldr & 0xFF7F_0000 != 0xE51F_0000 {
            return None;
        }
        let (up, rt, imm) = (ldr & 0x0080_0000 != 0, (ldr >> 12) & 0xF, (ldr & 0xFFF) as usize);
        let bx = w(4);
        if bx & 0xFFFF_FFF0 != 0xE12F_FF10 || (bx & 0xF) != rt {
            return None;
        }
        let load = if up { at + 8 + imm } else { (at + 8).wrapping_sub(imm) };
        if load < at || load + 4 > at + 12 {
            return None;
        }
        Some(w(load - at))
    }
}

/// C16 / C02 over a re-fake history (wave 10, seed C16-j): the same function faked twice while the first guard is
/// alive, in ARM state and in Thumb state at 0 mod 4 and at 2 mod 4: after EACH installation the word read by the
/// literal load is that installation's fake and an interworking branch follows; dropping newest-first restores.
#[test]
fn verif_native_arm_refake() {
    unsafe {
        let base = arena();
        for (off, thumb) in [(64usize, false), (128, true), (194, true)] {
            let entry = base.add(off);
            for i in 0..16 {
                *entry.add(i) = 0xA0 + i as u8;
            }
            let before = snap(base);
            let t = thumb as usize;
            let g0 = PatchArm::replace_function_with_other_function(fp(entry as usize | t), fp(0x2000_0001));
            assert_eq!(loaded_word(entry, thumb), Some(0x2000_0001), "C16: first installation at offset {off} (thumb={thumb}) does not load its fake");
            let g1 = PatchArm::replace_function_with_other_function(fp(entry as usize | t), fp(0x3456_7801));
            assert_eq!(loaded_word(entry, thumb), Some(0x3456_7801), "C16: re-fake at offset {off} (thumb={thumb}): the entry does not decode to a literal load of the NEW fake followed by an interworking branch");
            drop(g1);
            assert_eq!(loaded_word(entry, thumb), Some(0x2000_0001), "C02: dropping the newer guard does not bring the older fake back at offset {off}");
            drop(g0);
            assert!(snap(base) == before, "C02: re-fake history at offset {off} not restored");
        }
    }
}
