//! Native confirmation run (NOT a proof): the T1-extracted 32-bit ARM back end executed on the host over
//! an arena mapped below 4 GiB (MAP_32BIT), so that the back end's `as u32` addresses are real.
use super::*;
use crate::injector_core::common::*;

unsafe fn arena() -> *mut u8 {
    let p = libc::mmap(std::ptr::null_mut(), 4096, libc::PROT_READ | libc::PROT_WRITE | libc::PROT_EXEC, libc::MAP_PRIVATE | libc::MAP_ANONYMOUS | libc::MAP_32BIT, -1, 0);
    assert!(p != libc::MAP_FAILED);
    assert!((p as usize) < (1usize << 32));
    p as *mut u8
}
unsafe fn fp(a: usize) -> FuncPtrInternal {
    FuncPtrInternal::new(std::ptr::NonNull::new(a as *mut ()).unwrap())
}
unsafe fn snap(p: *const u8) -> Vec<u8> {
    std::slice::from_raw_parts(p, 4096).to_vec()
}

#[test]
fn verif_native_arm_two_lives() {
    unsafe {
        let base = arena();
        for thumb in [0usize, 1usize] {
            let entry = base.add(64 + 32 * thumb);
            for i in 0..12 {
                *entry.add(i) = 0xA0 + i as u8;
            }
            let before = snap(base);
            let g = PatchArm::replace_function_with_other_function(fp(entry as usize | thumb), fp(0x2000_0001));
            assert!(snap(base) != before, "nothing was patched");
            drop(g);
            assert!(snap(base) == before, "C02: lifetime 1 not restored");
            for i in 0..12 {
                *entry.add(i) = 0x10 + i as u8;
            }
            let before2 = snap(base);
            let g = PatchArm::replace_function_with_other_function(fp(entry as usize | thumb), fp(0x3000_0000));
            drop(g);
            assert!(snap(base) == before2, "C02: lifetime 2 restored bytes that are not what was there before it");
        }
    }
}
