"""Registry of obligations: which harness / Verus unit / scan serves which property, on which
extraction variant, which real functions it puts under contract, and how a counterexample is
replayed natively."""
import os
import re
import subprocess

VERIF = os.path.dirname(os.path.dirname(os.path.abspath(__file__)))

VARIANTS = {
    "base": dict(modules=["verif_common.rs"]),
    "big": dict(modules=["verif_common.rs"], big_arena=True),
    "macos": dict(modules=["verif_common.rs"], macos=True),
}

AMD = "injector_core/patch_amd64.rs"
COM = "injector_core/common.rs"
INJ = "interface/injector.rs"

GENERATORS = {}
HARNESSES = {}
VERUS = {}
STATIC = {}


def H(name, **kw):
    HARNESSES[name] = kw


def contracts_for(hs):
    out = []
    for s in hs.values():
        for c in s.get("contracts", []):
            if c not in out:
                out.append(c)
    return out


def scan_assumptions(modules):
    """mechanical scan of the proof modules for anything that is an assumption, not a proof"""
    found = []
    for m in modules:
        p = os.path.join(VERIF, "contracts", "kani", m)
        if not os.path.exists(p):
            continue
        for i, line in enumerate(open(p), 1):
            mm = re.search(r"kani::assume\((.*)\);|#\[kani::stub\((.*)\)\]|#\[kani::stub_verified\((.*)\)\]|#\[kani::unwind\((\d+)\)\]", line)
            if mm:
                found.append("%s:%d %s" % (m, i, line.strip()[:140]))
    return found


# ------------------------------------------------------------------------------------------------
# native replays
def _replay_bin(name, args, verif):
    env = dict(os.environ, CARGO_TARGET_DIR=os.path.join(verif, "work", "replay-target"), CARGO_NET_OFFLINE="true")
    b = subprocess.run(["cargo", "build", "--offline", "--bin", name], cwd=os.path.join(verif, "replay"), env=env, stdout=subprocess.PIPE, stderr=subprocess.STDOUT, text=True)
    if b.returncode != 0:
        return dict(reproduced=False, error="replay program does not build against /repo", build_tail=b.stdout[-1500:])
    p = subprocess.run([os.path.join(verif, "work", "replay-target", "debug", name)] + [str(a) for a in args], stdout=subprocess.PIPE, stderr=subprocess.STDOUT, text=True, timeout=120)
    return dict(reproduced=p.returncode != 0, cmd="%s %s" % (name, " ".join(str(a) for a in args)), exit=p.returncode, transcript=p.stdout[-1500:])


def le(vals, i):
    return int.from_bytes(bytes(vals[i]), "little")


# ------------------------------------------------------------------------------------------------
TB_X86 = "x86-64 decoder/effect table for E9 rel32, 48 B8 imm64, FF E0, 48 C7 C0 imm32, C3 (verif_rt::oracle, restated from the Intel SDM)"
TB_SHIM = "OS model shim/libc: mmap returns MAP_FAILED or a fresh mapping at an address of the OS's choosing; munmap legal only on exactly a live mapping; mprotect records the interval; sysconf(_SC_PAGESIZE) is the ghost page size"
TB_KANI = "Kani 0.68 / CBMC 6.11 (bit-precise machine arithmetic; object-based pointer model), rustc MIR semantics"
TB_HOOK = "T4: an explicit panic! ends the execution (modelled by assume(false) after the hook's assertions); unwinding itself is Rust semantics"

PROPS = {}


def P(pid, **kw):
    PROPS[pid] = kw


for _p in ["C%02d" % i for i in range(1, 18)]:
    P(_p, level="proof", trusted_base=[TB_KANI, TB_SHIM, TB_HOOK], assumptions=[])

H("c01_enc_lands", module="verif_amd64.rs", props=["C01", "C13"], fns=[(AMD, "generate_branch_to_target_function")],
  covers=["COVER:end", "COVER:short-form", "COVER:long-form"])

_LIFE_FNS = [(AMD, "replace_function_with_other_function"), (AMD, "replace_function_return_boolean"), (AMD, "generate_will_return_boolean_jit_code"), (AMD, "patch_and_guard"),
             (AMD, "generate_branch_to_target_function"), (COM, "allocate_jit_memory"), (COM, "allocate_jit_memory_unix"), (COM, "read_bytes"), (COM, "new"), (COM, "drop"),
             (COM, "patch_function", 0), (COM, "make_memory_writable_and_executable"), (COM, "make_memory_writable_and_executable_linux"), (COM, "inject_asm_code"), (COM, "clear_cache")]
H("lifecycle_near", module="verif_amd64.rs", props=["C01", "C02", "C03", "C11", "C12", "C13", "C17"], fns=_LIFE_FNS, covers=["COVER:end"], min_obligations=15)
H("lifecycle_bool", module="verif_amd64.rs", props=["C01", "C02", "C03", "C10", "C12", "C17"], fns=_LIFE_FNS, covers=["COVER:end", "COVER:true"], min_obligations=15)
H("lifecycle_far", module="verif_amd64.rs", props=["C01", "C02", "C03", "C12", "C17"], fns=_LIFE_FNS, covers=["COVER:end", "COVER:long-entry"], min_obligations=15)

def _page_back(vals):
    """counterexample (off, len, page-size selector) -> bytes between the entry and the page end for the
    native 5-byte patch on 4 KiB pages: the same straddle, on the real code in a real process"""
    off, ln, sel = le(vals, 0), le(vals, 1), le(vals, 2)
    ps = {0: 16, 1: 32, 2: 4096, 3: 16384}.get(sel, 65536)
    room = ps - off % ps
    return max(1, min(4, room)) if room < ln else 16


_PAGE_FNS = [(COM, "patch_function", 0), (COM, "make_memory_writable_and_executable"), (COM, "make_memory_writable_and_executable_linux"), (COM, "inject_asm_code")]
H("c01_page_cover", module="verif_common.rs", props=["C01"], fns=_PAGE_FNS, covers=["COVER:end", "COVER:straddles", "COVER:straddles-two"],
  replay=lambda vals, verif: _replay_bin("c01_page_span", [_page_back(vals)], verif))
