"""Registry of obligations: which harness / Verus unit / scan serves which property, on which
extraction variant, which real functions it puts under contract, and how a counterexample is
replayed natively."""
import json
import os
import re
import subprocess
import sys

sys.path.insert(0, os.path.join(os.path.dirname(os.path.dirname(os.path.abspath(__file__))), "lib"))
import extract
import gen_macros

VERIF = os.path.dirname(os.path.dirname(os.path.abspath(__file__)))

VARIANTS = {
    "base": dict(modules=["verif_common.rs"]),
    "big": dict(modules=["verif_common.rs"], big_arena=True),
    "macos": dict(modules=["verif_common.rs"], macos=True),
}

AMD = "injector_core/patch_amd64.rs"
COM = "injector_core/common.rs"
INJ = "interface/injector.rs"

GENERATORS = {}
HARNESSES = {}
VERUS = {}
STATIC = {}


def H(name, **kw):
    HARNESSES[name] = kw


def contracts_for(hs):
    out = []
    for s in hs.values():
        for c in s.get("contracts", []):
            if c not in out:
                out.append(c)
    return out


def scan_assumptions(modules):
    """mechanical scan of the proof modules for anything that is an assumption, not a proof"""
    found = []
    for m in modules:
        p = os.path.join(VERIF, "contracts", "kani", m)
        if not os.path.exists(p):
            continue
        for i, line in enumerate(open(p), 1):
            mm = re.search(r"kani::assume\((.*)\);|#\[kani::stub\((.*)\)\]|#\[kani::stub_verified\((.*)\)\]|#\[kani::unwind\((\d+)\)\]", line)
            if mm:
                found.append("%s:%d %s" % (m, i, line.strip()[:140]))
    return found


# ------------------------------------------------------------------------------------------------
# native replays
def _replay_bin(name, args, verif):
    env = dict(os.environ, CARGO_TARGET_DIR=os.path.join(verif, "work", "replay-target"), CARGO_NET_OFFLINE="true")
    b = subprocess.run(["cargo", "build", "--offline", "--bin", name], cwd=os.path.join(verif, "replay"), env=env, stdout=subprocess.PIPE, stderr=subprocess.STDOUT, text=True)
    if b.returncode != 0:
        return dict(reproduced=False, error="replay program does not build against /repo", build_tail=b.stdout[-1500:])
    p = subprocess.run([os.path.join(verif, "work", "replay-target", "debug", name)] + [str(a) for a in args], stdout=subprocess.PIPE, stderr=subprocess.STDOUT, text=True, timeout=120)
    return dict(reproduced=p.returncode != 0, cmd="%s %s" % (name, " ".join(str(a) for a in args)), exit=p.returncode, transcript=p.stdout[-1500:])


def le(vals, i):
    return int.from_bytes(bytes(vals[i]), "little")


# ------------------------------------------------------------------------------------------------
TB_X86 = "x86-64 decoder/effect table for E9 rel32, 48 B8 imm64, FF E0, 48 C7 C0 imm32, C3 (verif_rt::oracle, restated from the Intel SDM)"
TB_SHIM = "OS model shim/libc: mmap returns MAP_FAILED or a fresh mapping at an address of the OS's choosing; munmap legal only on exactly a live mapping; mprotect records the interval; sysconf(_SC_PAGESIZE) is the ghost page size"
TB_KANI = "Kani 0.68 / CBMC 6.11 (bit-precise machine arithmetic; object-based pointer model), rustc MIR semantics"
TB_HOOK = "T4: an explicit panic! ends the execution (modelled by assume(false) after the hook's assertions); unwinding itself is Rust semantics"

PROPS = {}


def P(pid, **kw):
    PROPS[pid] = kw


for _p in ["C%02d" % i for i in range(1, 18)]:
    P(_p, level="proof", trusted_base=[TB_KANI, TB_SHIM, TB_HOOK], assumptions=[], claimed=False)


def claim(pid, level_text, level_note, **kw):
    PROPS[pid].update(claimed=True, level_text=level_text, level_note=level_note, **kw)

H("c01_enc_lands", module="verif_amd64.rs", props=["C01", "C13"], fns=[(AMD, "generate_branch_to_target_function")],
  covers=["COVER:end", "COVER:short-form", "COVER:long-form"])

_LIFE_FNS = [(AMD, "replace_function_with_other_function"), (AMD, "replace_function_return_boolean"), (AMD, "generate_will_return_boolean_jit_code"), (AMD, "patch_and_guard"),
             (AMD, "generate_branch_to_target_function"), (COM, "allocate_jit_memory"), (COM, "allocate_jit_memory_unix"), (COM, "read_bytes"), (COM, "new"), (COM, "drop"),
             (COM, "patch_function", 0), (COM, "make_memory_writable_and_executable"), (COM, "make_memory_writable_and_executable_linux"), (COM, "inject_asm_code"), (COM, "clear_cache")]
H("lifecycle_near", module="verif_amd64.rs", props=["C01", "C02", "C03", "C11", "C12", "C13", "C17"], fns=_LIFE_FNS, covers=["COVER:end"], min_obligations=15)
H("lifecycle_bool", module="verif_amd64.rs", props=["C01", "C02", "C03", "C10", "C12", "C17"], fns=_LIFE_FNS, covers=["COVER:end", "COVER:true"], min_obligations=15)
H("lifecycle_far", module="verif_amd64.rs", props=["C01", "C02", "C03", "C12", "C17"], fns=_LIFE_FNS, covers=["COVER:end", "COVER:long-entry"], min_obligations=15)

def _page_back(vals):
    """counterexample (off, len, page-size selector) -> bytes between the entry and the page end for the
    native 5-byte patch on 4 KiB pages: the same straddle, on the real code in a real process"""
    off, ln, sel = le(vals, 0), le(vals, 1), le(vals, 2)
    ps = {0: 16, 1: 32, 2: 4096, 3: 16384}.get(sel, 65536)
    room = ps - off % ps
    return max(1, min(4, room)) if room < ln else 16


_PAGE_FNS = [(COM, "patch_function", 0), (COM, "make_memory_writable_and_executable"), (COM, "make_memory_writable_and_executable_linux"), (COM, "inject_asm_code")]
H("c01_page_cover", module="verif_common.rs", props=["C01"], fns=_PAGE_FNS, covers=["COVER:end", "COVER:straddles", "COVER:straddles-two"],
  replay=lambda vals, verif: _replay_bin("c01_page_span", [_page_back(vals)], verif))

INT = "injector_core/internal.rs"
VER = "interface/verifier.rs"
FPT = "interface/func_ptr.rs"
MI = "verif_injector.rs"
_MODS_INJ = dict(module=MI, extra_modules=["verif_internal.rs"])
H("c01_dispatch", module="verif_internal.rs", props=["C01"], fns=[(INT, "will_execute_guard"), (INT, "will_return_boolean_guard")], covers=["COVER:end", "COVER:bool", "COVER:raw"])
H("c01_flavour_raw", props=["C01", "C02"], fns=[(INJ, "when_called"), (INJ, "will_execute_raw")], **_MODS_INJ)
H("c01_flavour_raw_unchecked", props=["C01", "C02"], fns=[(INJ, "when_called_unchecked"), (INJ, "will_execute_raw_unchecked")], **_MODS_INJ)
H("c01_flavour_fake_pair", props=["C01", "C02", "C06"], fns=[(INJ, "will_execute")], **_MODS_INJ)
H("c01_flavour_bool", props=["C01", "C02", "C10"], fns=[(INJ, "will_return_boolean"), (INJ, "signature_returns_bool")], **_MODS_INJ)
_B = "symbolic strings bounded in length L=8 (quick) / 12 (thorough), all printable-ASCII contents"
H("c09_gate_raw", props=["C09", "C05"], fns=[(INJ, "will_execute_raw")], expects_panic=True, bounded=_B, covers=["COVER:end", "COVER:accepted-nontrivial"], **_MODS_INJ)
H("c09_gate_pair", props=["C09", "C05"], fns=[(INJ, "will_execute")], expects_panic=True, bounded=_B, **_MODS_INJ)
H("c09_gate_async", props=["C09", "C05", "C14"], fns=[(INJ, "will_return_async")], expects_panic=True, bounded=_B, **_MODS_INJ)
H("c09_gate_mixed", props=["C09", "C05"], fns=[(INJ, "will_execute_raw"), (INJ, "when_called_unchecked")], expects_panic=True, bounded=_B, covers=[], covers_unreachable=["COVER:not-refused"], **_MODS_INJ)
H("c09_null", props=["C09"], fns=[(FPT, "new")], covers=[], covers_unreachable=["COVER:constructed-from-null"], expect_fail_desc="expect_failed", min_obligations=2, **_MODS_INJ)
H("c10_gate_unstructured", tiers=("thorough",), timeout=7200, props=["C10", "C05"], fns=[(INJ, "will_return_boolean"), (INJ, "signature_returns_bool")], expects_panic=True, bounded=_B, covers=[], covers_unreachable=["COVER:not-refused"], **_MODS_INJ)
H("c07_reset", props=["C07"], fns=[(INJ, "will_execute")], covers=["COVER:end", "COVER:stale-count"], **_MODS_INJ)
_INJ_FNS = [(INJ, "new", 1), (INJ, "prevent"), (INJ, "lock"), (INJ, "drop")]
H("c04_injector_holds", props=["C04"], fns=_INJ_FNS + [(INJ, "will_execute_raw"), (INJ, "will_return_boolean")], min_obligations=8, **_MODS_INJ)
H("c04_preventer_holds", props=["C04"], fns=_INJ_FNS + [(INJ, "is_active"), (INJ, "default")], min_obligations=6, **_MODS_INJ)
_BK = "install histories of length K over two functions x {raw, boolean} on the real drop glue; all finite histories by the Verus lemma C02.lemma.rev"
H("c02_cycle_raw", props=["C02", "C12", "C03"], fns=_INJ_FNS + [(COM, "drop")], **_MODS_INJ)
H("c02_cycle_bool", props=["C02", "C12", "C03"], fns=_INJ_FNS + [(COM, "drop")], **_MODS_INJ)
for _k in range(1, 8):
    H("c02_order_k%d" % _k, props=["C02", "C12", "C04"], fns=_INJ_FNS, tiers=(("quick", "thorough") if _k <= 4 else ("thorough",)),
      bounded="order of the real drop glue checked for history length K=%d (core replaced by a tagging recorder); all lengths by Vec::pop's contract + lemma_reverse_restores" % _k,
      replay=lambda vals, verif: _replay_bin("c02_history", [0, 0], verif), **_MODS_INJ)
H("c05_dropglue_panicking", props=["C05"], fns=_INJ_FNS + [(VER, "drop")], **_MODS_INJ)
H("c05_verdict_after_restore", props=["C05", "C06"], fns=_INJ_FNS + [(VER, "drop")], expects_panic=True, covers=[], covers_unreachable=["COVER:no-verdict-panic"], **_MODS_INJ)

# ------------------------------------------------------------------------------------------------
claim("C01",
      "Proof: every obligation is discharged for all inputs of its domain by Kani/CBMC on the real functions extracted from /repo/src: the x86-64 encoder for all (origin, target) pairs in the lower canonical half "
      "(2^126 pairs) against an independent decoder; the real installers and PatchGuard::drop over a symbolic 64-byte code arena with symbolic placement; patch_function for every entry offset, patch length and page size "
      "in {16,32,4096,16384,65536}; each public installation flavour against what it hands the core.",
      "Trusted: the x86 decoder table, the OS model (shim), CBMC's object memory model (address arithmetic is decided on integers in the encoder obligation), that the CPU executes the bytes; allocate_jit_memory is replaced by its contract in the effect harnesses (the contract is proved by Verus under C11).",
      trusted_base=[TB_KANI, TB_SHIM, TB_HOOK, TB_X86])
claim("C02",
      "Proof of the per-guard contracts (saved bytes == bytes before the patch; drop restores exactly them, frees exactly its mapping) on the real installer/drop for all arena contents and placements, "
      "one whole real lifetime (post-state == pre-state); the restoration ORDER of the real drop glue is discharged per history length K (bounded stand-in, K<=4 quick / <=7 thorough, core replaced by a tagging recorder) and lifted to all finite histories by the Verus induction lemma.",
      "Trusted: Vec::push/pop order and rustc's drop order of fields; the order obligation is bounded in K and labelled so; two real installations in one Kani harness exceed CBMC's capacity (65 GB), so histories are composed modularly.",
      trusted_base=[TB_KANI, TB_SHIM, TB_HOOK, TB_X86])
claim("C04",
      "Proof (sequential) of lock containment on the real code: a live InjectorPP / Preventer holds LOCK_FUNCTION from construction to drop; every OS-visible step of installing and restoring happens while it is held; it is released afterwards and can be retaken. "
      "Schedules are discharged by the assumed contract of std::sync::Mutex (at most one guard at a time).",
      "Assumed, not verified: std::sync::Mutex mutual exclusion under every schedule, and that some waiter eventually acquires it (liveness). Kani does not execute threads. The poisoned arm of NoPoisonMutex::lock cannot be driven under Kani (std built with panic=abort) and is covered by type only.",
      level="proof")
claim("C07",
      "Proof: for every prior value of the call-site counter and every expectation N, after the real will_execute the counter is 0 and the registered verifier is the one handed in.",
      "Trusted: the counter reached through the verifier is the static the fake increments (shown per fake! arm under C06/C08).")

# ------------------------------------------------------------------------------------------------
# C06 / C08: one harness per arm of fake! found in /repo at check time
MAC = "interface/macros.rs"


def _macro_files(repo, skip=()):
    arms, arms_text, lines, harness_text = gen_macros.generate(repo, skip)
    return {
        "verif_arms": dict(parent=INJ, dest="interface/injector/verif_arms.rs", modline="mod verif_arms;", text=arms_text, gate=False),
        "verif_macros": dict(parent=INJ, dest="interface/injector/verif_macros.rs", modline="mod verif_macros;", text=harness_text),
    }


GENERATORS["macros"] = _macro_files


def macros_precheck(crate, env):
    """C08.arm<k>.compiles — rustc is the checker: the extracted crate with one instantiation per arm must
    type-check. A failing arm is identified from the diagnostic spans, reported, and left out of the
    crate that goes to Kani so that the other arms are still decided."""
    repo = extract.REPO
    arms, arms_text, lines, _h = gen_macros.generate(repo)
    res = dict(obligations={}, failures=[], undecided=[], skip=set())
    unparsed = [a for a in arms if not a["parsed"]]
    for a in unparsed:
        res["undecided"].append("fake! arm %d (macros.rs line %d) has a matcher this generator does not understand: %s" % (a["idx"], a["line"], a["matcher"][:120]))
    env = dict(env)
    env.pop("RUSTFLAGS", None)
    env["CARGO_TARGET_DIR"] = os.path.join(os.path.dirname(crate), "td", "precheck")
    p = subprocess.run(["cargo", "check", "--offline", "--message-format=json", "--lib"], cwd=crate, env=env, stdout=subprocess.PIPE, stderr=subprocess.PIPE, text=True)
    bad = {}
    other = []
    for line in p.stdout.split("\n"):
        if not line.startswith("{"):
            continue
        try:
            m = json.loads(line)
        except Exception:  # noqa: BLE001
            continue
        msg = m.get("message")
        if m.get("reason") != "compiler-message" or not msg or msg.get("level") != "error":
            continue
        hit = None

        def walk(sp):
            nonlocal hit
            if sp is None:
                return
            if sp.get("file_name", "").endswith("verif_arms.rs"):
                for k, (a, b) in lines.items():
                    if a <= sp["line_start"] <= b:
                        hit = k
            walk((sp.get("expansion") or {}).get("span"))

        for sp in msg.get("spans", []):
            walk(sp)
        if hit is None:
            other.append(msg.get("message", "")[:200])
        else:
            bad.setdefault(hit, []).append(msg.get("message", "")[:200])
    if p.returncode != 0 and not bad and not other:
        res["undecided"].append("cargo check of the extracted crate failed: " + p.stderr[-400:])
    if other and not bad:
        res["undecided"].append("the extracted crate does not compile for a reason not attributable to a fake! arm: " + "; ".join(other[:3]))
    for a in arms:
        if not a["parsed"]:
            continue
        oid = "C08.arm%d.compiles" % a["idx"]
        if a["idx"] in bad:
            res["obligations"][oid] = "FAILURE"
            res["failures"].append(dict(obligation=oid, desc="fake! arm %d (macros.rs line %d: %s) does not compile for a well-typed use: %s" % (a["idx"], a["line"], a["matcher"][:100], "; ".join(bad[a["idx"]][:2])), loc="src/interface/macros.rs:%d" % a["line"], kind="obligation"))
            res["skip"].add(a["idx"])
        elif not other and (p.returncode == 0 or bad):
            res["obligations"][oid] = "SUCCESS"
    res["n_arms"] = len(arms)
    return res


_ARMS = []
try:
    _ARMS = gen_macros.enumerate_arms(extract.REPO)
except Exception as _e:  # noqa: BLE001  (lost anchor is reported by the driver when it extracts)
    _ARMS = []
_MACRO_COMMON = dict(module_dest="interface/injector/verif_macros.rs", generator="macros", precheck="macros", fns=[(MAC, "__assert_future_output")], extra_modules=[])
for _a in _ARMS:
    if not _a["parsed"]:
        continue
    _k = _a["idx"]
    H("arm_%d" % _k, props=["C08", "C06"] if _a["times"] else ["C08"], arm=_k, expects_panic=(_a["when"] or _a["times"]), group="arms", covers=["COVER:end"], **_MACRO_COMMON)
    if _a["times"]:
        H("rmw_%d" % _k, props=["C06"], arm=_k, group="arms", **_MACRO_COMMON)
PRECHECKS = {"macros": macros_precheck}

H("c06_verdict", module="verif_verifier.rs", props=["C06", "C05"], fns=[(VER, "drop")], expects_panic=True, covers=["COVER:end", "COVER:quiet-while-panicking", "COVER:satisfied"])


def scan_verdict_message(repo):
    """not verifier-decided: that the verdict message names both numbers. Syntactic scan of the format string."""
    t = open(os.path.join(repo, "src", VER)).read()
    body = extract.fn_text(t, "drop")
    m = re.search(r'panic!\(\s*"([^"]*)"', body)
    if not m:
        return None, "no panic! with a literal message found in CallCountVerifier::drop"
    msg = m.group(1)
    ok = "{expected}" in msg and "{call_times}" in msg
    return ok, "verdict message %r %s both the expected and the actual count" % (msg, "names" if ok else "does NOT name")


STATIC["c06_message_names_both_numbers"] = dict(props=["C06"], fn=scan_verdict_message)

# ------------------------------------------------------------------------------------------------
# Verus units
import verus_alloc  # noqa: E402


def _lemma_builder(fname):
    def b(repo):
        with open(os.path.join(VERIF, "contracts", "lemmas", fname)) as f:
            return f.read(), [dict(rule="lemma-file", file=fname)]
    return b


def _alloc_builder(variant):
    return lambda repo: verus_alloc.build(repo, variant)


_ALLOC_FN = [(COM, "allocate_jit_memory_unix")]
VERUS["alloc_linux_x86_64"] = dict(props=["C11", "C12"], builder=_alloc_builder("linux_x86_64"), fns=_ALLOC_FN, expect_verified=11)
VERUS["alloc_linux_aarch64"] = dict(props=["C11"], builder=_alloc_builder("linux_aarch64"), fns=_ALLOC_FN, expect_verified=11)
VERUS["alloc_macos_aarch64"] = dict(props=["C11", "C15"], builder=_alloc_builder("macos_aarch64"), fns=_ALLOC_FN, expect_verified=11)
VERUS["lemmas_history"] = dict(props=["C02", "C03", "C12"], builder=_lemma_builder("history.rs"), expect_verified=10, lemma=True)
VERUS["lemmas_counting"] = dict(props=["C06"], builder=_lemma_builder("counting.rs"), expect_verified=4, lemma=True)
VERUS["lemmas_reach"] = dict(props=["C11", "C15"], builder=_lemma_builder("reach.rs"), expect_verified=3, lemma=True)

# ------------------------------------------------------------------------------------------------
# AArch64 (T1-extracted files compiled for the host)
A64G = "injector_core/arm64_codegenerator.rs"
A64P = "injector_core/patch_arm64.rs"
UTL = "injector_core/utils.rs"
TB_A64 = "A64 decoder/interpreter for MOVZ, MOVK, BR, RET, B, ADRP, ADD (imm), NOP (verif_rt::oracle, restated from the Arm ARM C6.2)"
_GEN_FNS = [(UTL, "u64_to_bits"), (UTL, "u8_to_bits"), (UTL, "bool_array_to_u32"), (A64G, "emit_movz"), (A64G, "emit_movk"), (A64G, "emit_movz_from_address"), (A64G, "emit_movk_from_address"), (A64G, "emit_br"), (A64G, "emit_ret"), (A64G, "emit_ret_x30")]
H("c15_bits", module="verif_a64gen.rs", props=["C15"], fns=_GEN_FNS[:3])
H("c15_movz_movk", module="verif_a64gen.rs", props=["C15"], fns=_GEN_FNS)
H("c15_from_address", module="verif_a64gen.rs", props=["C15"], fns=_GEN_FNS)
H("c15_br_ret", module="verif_a64gen.rs", props=["C15"], fns=_GEN_FNS)
H("c15_long_jump", module="verif_a64gen.rs", variant="macos", props=["C15", "C11"], fns=[(A64G, "maybe_emit_long_jump")], covers=["COVER:end", "COVER:short", "COVER:long"])
H("c15_abs", module="verif_arm64.rs", props=["C15", "C13", "C17"], fns=[(A64P, "generate_will_execute_jit_code_abs"), (A64P, "append_instruction"), (COM, "inject_asm_code")] + _GEN_FNS, timeout=3000)
H("c15_bool", module="verif_arm64.rs", props=["C15", "C10", "C13"], fns=[(A64P, "generate_will_return_boolean_jit_code"), (A64P, "write_instruction")] + _GEN_FNS)
H("c11_a64_range", module="verif_arm64.rs", props=["C11", "C15", "C12", "C02"], fns=[(A64P, "apply_branch_patch"), (COM, "patch_function", 0)], covers=["COVER:end", "COVER:lowest", "COVER:highest"])
H("c15_a64_out_of_range_refused", module="verif_arm64.rs", props=["C15", "C11", "C05"], fns=[(A64P, "apply_branch_patch")], expects_panic=True, covers=[], covers_unreachable=["COVER:wrapped-branch-written"])

ARM = "injector_core/patch_arm.rs"
TB_A32 = "A32/T32 decoder for LDR (literal), BX, NOP incl. Align(PC,4), and the AAPCS32 callee-saved set (verif_rt::oracle)"
_ARM_FNS = [(ARM, "replace_function_with_other_function"), (ARM, "replace_function_return_boolean")]
_ARM_ASSUME = "read_bytes / patch_function replaced by recorders (32-bit addresses are not host pointers)"
for _n in ["c16_a32", "c16_t32_aligned", "c16_t32_unaligned"]:
    H(_n, module="verif_arm.rs", props=["C16"], fns=_ARM_FNS, min_obligations=9)
H("c16_bool", module="verif_arm.rs", props=["C16", "C10"], fns=_ARM_FNS)
