"""Registry of obligations: which harness / Verus unit / scan serves which property, on which
extraction variant, which real functions it puts under contract, and how a counterexample is
replayed natively."""
import os
import re
import subprocess

VERIF = os.path.dirname(os.path.dirname(os.path.abspath(__file__)))

VARIANTS = {
    "base": dict(modules=["verif_common.rs"]),
    "big": dict(modules=["verif_common.rs"], big_arena=True),
    "macos": dict(modules=["verif_common.rs"], macos=True),
}

AMD = "injector_core/patch_amd64.rs"
COM = "injector_core/common.rs"
INJ = "interface/injector.rs"

GENERATORS = {}
HARNESSES = {}
VERUS = {}
STATIC = {}


def H(name, **kw):
    HARNESSES[name] = kw


def contracts_for(hs):
    out = []
    for s in hs.values():
        for c in s.get("contracts", []):
            if c not in out:
                out.append(c)
    return out


def scan_assumptions(modules):
    """mechanical scan of the proof modules for anything that is an assumption, not a proof"""
    found = []
    for m in modules:
        p = os.path.join(VERIF, "contracts", "kani", m)
        if not os.path.exists(p):
            continue
        for i, line in enumerate(open(p), 1):
            mm = re.search(r"kani::assume\((.*)\);|#\[kani::stub\((.*)\)\]|#\[kani::stub_verified\((.*)\)\]|#\[kani::unwind\((\d+)\)\]", line)
            if mm:
                found.append("%s:%d %s" % (m, i, line.strip()[:140]))
    return found


# ------------------------------------------------------------------------------------------------
# native replays
def _replay_bin(name, args, verif):
    env = dict(os.environ, CARGO_TARGET_DIR=os.path.join(verif, "work", "replay-target"), CARGO_NET_OFFLINE="true")
    b = subprocess.run(["cargo", "build", "--offline", "--bin", name], cwd=os.path.join(verif, "replay"), env=env, stdout=subprocess.PIPE, stderr=subprocess.STDOUT, text=True)
    if b.returncode != 0:
        return dict(reproduced=False, error="replay program does not build against /repo", build_tail=b.stdout[-1500:])
    p = subprocess.run([os.path.join(verif, "work", "replay-target", "debug", name)] + [str(a) for a in args], stdout=subprocess.PIPE, stderr=subprocess.STDOUT, text=True, timeout=120)
    return dict(reproduced=p.returncode != 0, cmd="%s %s" % (name, " ".join(str(a) for a in args)), exit=p.returncode, transcript=p.stdout[-1500:])


def le(vals, i):
    return int.from_bytes(bytes(vals[i]), "little")


# ------------------------------------------------------------------------------------------------
TB_X86 = "x86-64 decoder/effect table for E9 rel32, 48 B8 imm64, FF E0, 48 C7 C0 imm32, C3 (verif_rt::oracle, restated from the Intel SDM)"
TB_SHIM = "OS model shim/libc: mmap returns MAP_FAILED or a fresh mapping at an address of the OS's choosing; munmap legal only on exactly a live mapping; mprotect records the interval; sysconf(_SC_PAGESIZE) is the ghost page size"
TB_KANI = "Kani 0.68 / CBMC 6.11 (bit-precise machine arithmetic; object-based pointer model), rustc MIR semantics"
TB_HOOK = "T4: an explicit panic! ends the execution (modelled by assume(false) after the hook's assertions); unwinding itself is Rust semantics"

PROPS = {}


def P(pid, **kw):
    PROPS[pid] = kw


for _p in ["C%02d" % i for i in range(1, 18)]:
    P(_p, level="proof", trusted_base=[TB_KANI, TB_SHIM, TB_HOOK], assumptions=[], claimed=False)


def claim(pid, level_text, level_note, **kw):
    PROPS[pid].update(claimed=True, level_text=level_text, level_note=level_note, **kw)

H("c01_enc_lands", module="verif_amd64.rs", props=["C01", "C13"], fns=[(AMD, "generate_branch_to_target_function")],
  covers=["COVER:end", "COVER:short-form", "COVER:long-form"])

_LIFE_FNS = [(AMD, "replace_function_with_other_function"), (AMD, "replace_function_return_boolean"), (AMD, "generate_will_return_boolean_jit_code"), (AMD, "patch_and_guard"),
             (AMD, "generate_branch_to_target_function"), (COM, "allocate_jit_memory"), (COM, "allocate_jit_memory_unix"), (COM, "read_bytes"), (COM, "new"), (COM, "drop"),
             (COM, "patch_function", 0), (COM, "make_memory_writable_and_executable"), (COM, "make_memory_writable_and_executable_linux"), (COM, "inject_asm_code"), (COM, "clear_cache")]
H("lifecycle_near", module="verif_amd64.rs", props=["C01", "C02", "C03", "C11", "C12", "C13", "C17"], fns=_LIFE_FNS, covers=["COVER:end"], min_obligations=15)
H("lifecycle_bool", module="verif_amd64.rs", props=["C01", "C02", "C03", "C10", "C12", "C17"], fns=_LIFE_FNS, covers=["COVER:end", "COVER:true"], min_obligations=15)
H("lifecycle_far", module="verif_amd64.rs", props=["C01", "C02", "C03", "C12", "C17"], fns=_LIFE_FNS, covers=["COVER:end", "COVER:long-entry"], min_obligations=15)

def _page_back(vals):
    """counterexample (off, len, page-size selector) -> bytes between the entry and the page end for the
    native 5-byte patch on 4 KiB pages: the same straddle, on the real code in a real process"""
    off, ln, sel = le(vals, 0), le(vals, 1), le(vals, 2)
    ps = {0: 16, 1: 32, 2: 4096, 3: 16384}.get(sel, 65536)
    room = ps - off % ps
    return max(1, min(4, room)) if room < ln else 16


_PAGE_FNS = [(COM, "patch_function", 0), (COM, "make_memory_writable_and_executable"), (COM, "make_memory_writable_and_executable_linux"), (COM, "inject_asm_code")]
H("c01_page_cover", module="verif_common.rs", props=["C01"], fns=_PAGE_FNS, covers=["COVER:end", "COVER:straddles", "COVER:straddles-two"],
  replay=lambda vals, verif: _replay_bin("c01_page_span", [_page_back(vals)], verif))

INT = "injector_core/internal.rs"
VER = "interface/verifier.rs"
FPT = "interface/func_ptr.rs"
MI = "verif_injector.rs"
_MODS_INJ = dict(module=MI, extra_modules=["verif_internal.rs"])
H("c01_dispatch", module="verif_internal.rs", props=["C01"], fns=[(INT, "will_execute_guard"), (INT, "will_return_boolean_guard")], covers=["COVER:end", "COVER:bool", "COVER:raw"])
H("c01_flavour_raw", props=["C01", "C02"], fns=[(INJ, "when_called"), (INJ, "will_execute_raw")], **_MODS_INJ)
H("c01_flavour_raw_unchecked", props=["C01", "C02"], fns=[(INJ, "when_called_unchecked"), (INJ, "will_execute_raw_unchecked")], **_MODS_INJ)
H("c01_flavour_fake_pair", props=["C01", "C02", "C06"], fns=[(INJ, "will_execute")], **_MODS_INJ)
H("c01_flavour_bool", props=["C01", "C02", "C10"], fns=[(INJ, "will_return_boolean"), (INJ, "signature_returns_bool")], **_MODS_INJ)
_B = "symbolic strings bounded in length L=8 (quick) / 12 (thorough), all printable-ASCII contents"
H("c09_gate_raw", props=["C09", "C05"], fns=[(INJ, "will_execute_raw")], expects_panic=True, bounded=_B, covers=["COVER:end", "COVER:accepted-nontrivial"], **_MODS_INJ)
H("c09_gate_pair", props=["C09", "C05"], fns=[(INJ, "will_execute")], expects_panic=True, bounded=_B, **_MODS_INJ)
H("c09_gate_async", props=["C09", "C05", "C14"], fns=[(INJ, "will_return_async")], expects_panic=True, bounded=_B, **_MODS_INJ)
H("c09_gate_mixed", props=["C09", "C05"], fns=[(INJ, "will_execute_raw"), (INJ, "when_called_unchecked")], expects_panic=True, bounded=_B, covers=[], covers_unreachable=["COVER:not-refused"], **_MODS_INJ)
H("c09_null", props=["C09"], fns=[(FPT, "new")], covers=[], covers_unreachable=["COVER:constructed-from-null"], expect_fail_desc="expect_failed", min_obligations=2, **_MODS_INJ)
H("c10_gate_unstructured", tiers=("thorough",), timeout=7200, props=["C10", "C05"], fns=[(INJ, "will_return_boolean"), (INJ, "signature_returns_bool")], expects_panic=True, bounded=_B, covers=[], covers_unreachable=["COVER:not-refused"], **_MODS_INJ)
H("c07_reset", props=["C07"], fns=[(INJ, "will_execute")], covers=["COVER:end", "COVER:stale-count"], **_MODS_INJ)
_INJ_FNS = [(INJ, "new", 1), (INJ, "prevent"), (INJ, "lock"), (INJ, "drop")]
H("c04_injector_holds", props=["C04"], fns=_INJ_FNS + [(INJ, "will_execute_raw"), (INJ, "will_return_boolean")], min_obligations=8, **_MODS_INJ)
H("c04_preventer_holds", props=["C04"], fns=_INJ_FNS + [(INJ, "is_active"), (INJ, "default")], min_obligations=6, **_MODS_INJ)
_BK = "install histories of length K over two functions x {raw, boolean} on the real drop glue; all finite histories by the Verus lemma C02.lemma.rev"
H("c02_cycle_raw", props=["C02", "C12", "C03"], fns=_INJ_FNS + [(COM, "drop")], **_MODS_INJ)
H("c02_cycle_bool", props=["C02", "C12", "C03"], fns=_INJ_FNS + [(COM, "drop")], **_MODS_INJ)
for _k in range(1, 8):
    H("c02_order_k%d" % _k, props=["C02", "C12", "C04"], fns=_INJ_FNS, tiers=(("quick", "thorough") if _k <= 4 else ("thorough",)),
      bounded="order of the real drop glue checked for history length K=%d (core replaced by a tagging recorder); all lengths by Vec::pop's contract + lemma_reverse_restores" % _k,
      replay=lambda vals, verif: _replay_bin("c02_history", [0, 0], verif), **_MODS_INJ)
H("c05_dropglue_panicking", props=["C05"], fns=_INJ_FNS + [(VER, "drop")], **_MODS_INJ)
H("c05_verdict_after_restore", props=["C05", "C06"], fns=_INJ_FNS + [(VER, "drop")], expects_panic=True, covers=[], covers_unreachable=["COVER:no-verdict-panic"], **_MODS_INJ)

# ------------------------------------------------------------------------------------------------
claim("C01",
      "Proof: every obligation is discharged for all inputs of its domain by Kani/CBMC on the real functions extracted from /repo/src: the x86-64 encoder for all (origin, target) pairs in the lower canonical half "
      "(2^126 pairs) against an independent decoder; the real installers and PatchGuard::drop over a symbolic 64-byte code arena with symbolic placement; patch_function for every entry offset, patch length and page size "
      "in {16,32,4096,16384,65536}; each public installation flavour against what it hands the core.",
      "Trusted: the x86 decoder table, the OS model (shim), CBMC's object memory model (address arithmetic is decided on integers in the encoder obligation), that the CPU executes the bytes; allocate_jit_memory is replaced by its contract in the effect harnesses (the contract is proved by Verus under C11).",
      trusted_base=[TB_KANI, TB_SHIM, TB_HOOK, TB_X86])
claim("C02",
      "Proof of the per-guard contracts (saved bytes == bytes before the patch; drop restores exactly them, frees exactly its mapping) on the real installer/drop for all arena contents and placements, "
      "one whole real lifetime (post-state == pre-state); the restoration ORDER of the real drop glue is discharged per history length K (bounded stand-in, K<=4 quick / <=7 thorough, core replaced by a tagging recorder) and lifted to all finite histories by the Verus induction lemma.",
      "Trusted: Vec::push/pop order and rustc's drop order of fields; the order obligation is bounded in K and labelled so; two real installations in one Kani harness exceed CBMC's capacity (65 GB), so histories are composed modularly.",
      trusted_base=[TB_KANI, TB_SHIM, TB_HOOK, TB_X86])
claim("C04",
      "Proof (sequential) of lock containment on the real code: a live InjectorPP / Preventer holds LOCK_FUNCTION from construction to drop; every OS-visible step of installing and restoring happens while it is held; it is released afterwards and can be retaken. "
      "Schedules are discharged by the assumed contract of std::sync::Mutex (at most one guard at a time).",
      "Assumed, not verified: std::sync::Mutex mutual exclusion under every schedule, and that some waiter eventually acquires it (liveness). Kani does not execute threads. The poisoned arm of NoPoisonMutex::lock cannot be driven under Kani (std built with panic=abort) and is covered by type only.",
      level="proof")
claim("C07",
      "Proof: for every prior value of the call-site counter and every expectation N, after the real will_execute the counter is 0 and the registered verifier is the one handed in.",
      "Trusted: the counter reached through the verifier is the static the fake increments (shown per fake! arm under C06/C08).")
