"""Registry of obligations: which harness / Verus unit / scan serves which property, on which
extraction variant, which real functions it puts under contract, and how a counterexample is
replayed natively."""
import json
import os
import re
import subprocess
import sys

sys.path.insert(0, os.path.join(os.path.dirname(os.path.dirname(os.path.abspath(__file__))), "lib"))
import extract
import gen_macros

VERIF = os.path.dirname(os.path.dirname(os.path.abspath(__file__)))

VARIANTS = {
    "base": dict(modules=["verif_common.rs"]),
    "big": dict(modules=["verif_common.rs"], big_arena=True),
    "macos": dict(modules=["verif_common.rs"], macos=True),
    "long": dict(modules=["verif_common.rs"], cfgs=["verif_long_strings"]),
    "arch_a64": dict(modules=["verif_common.rs"], arch="aarch64"),
    "arch_arm": dict(modules=["verif_common.rs"], arch="arm"),
}

AMD = "injector_core/patch_amd64.rs"
COM = "injector_core/common.rs"
INJ = "interface/injector.rs"

GENERATORS = {}
HARNESSES = {}
VERUS = {}
STATIC = {}


def H(name, **kw):
    HARNESSES[name] = kw


MODULE_CONTRACTS = {}


def contracts_for(hs):
    """T3 contracts to splice: those a selected harness asks for, and those the proof modules in use refer to
    (a module that mentions #[kani::stub_verified(f)] / proof_for_contract(f) needs f's contract in every build)"""
    out = []
    mods = {s.get("module") for s in hs.values()} | {m for s in hs.values() for m in s.get("extra_modules", [])}
    mods |= {d for m in mods if m for d in globals().get("MODULE_DEPS", {}).get(m, [])}
    for m in sorted(x for x in mods if x):
        for c in MODULE_CONTRACTS.get(m, []):
            if c not in out:
                out.append(c)
    for s in hs.values():
        for c in s.get("contracts", []):
            if c not in out:
                out.append(c)
    return out


def scan_assumptions(modules):
    """mechanical scan of the proof modules for anything that is an assumption, not a proof"""
    found = []
    for m in modules:
        p = os.path.join(VERIF, "contracts", "kani", m)
        if not os.path.exists(p):
            continue
        for i, line in enumerate(open(p), 1):
            mm = re.search(r"kani::assume\((.*)\);|#\[kani::stub\((.*)\)\]|#\[kani::stub_verified\((.*)\)\]|#\[kani::unwind\((\d+)\)\]", line)
            if mm:
                found.append("%s:%d %s" % (m, i, line.strip()[:140]))
    return found


# ------------------------------------------------------------------------------------------------
# native replays
def _replay_bin(name, args, verif):
    """build and run one native replay program against the tree under check (path dependency). For /repo the
    committed replay crate is used as it is; for a scratch tree (VERIF_REPO, seeded-change evaluation) a copy of
    the replay crate pointing at that tree is generated under work/."""
    rdir = os.path.join(verif, "replay")
    tdir = os.path.join(verif, "work", "replay-target")
    repo = os.path.realpath(extract.REPO)
    if repo != "/repo":
        import shutil
        sfx = os.environ.get("VERIF_WORK_SUFFIX", "-alt")
        rdir = os.path.join(verif, "work", "replay" + sfx)
        tdir = os.path.join(verif, "work", "replay-target" + sfx)
        if os.path.exists(rdir):
            shutil.rmtree(rdir)
        shutil.copytree(os.path.join(verif, "replay"), rdir, ignore=shutil.ignore_patterns("target"))
        with open(os.path.join(rdir, "Cargo.toml")) as f:
            t = f.read()
        with open(os.path.join(rdir, "Cargo.toml"), "w") as f:
            f.write(t.replace('path = "/repo"', 'path = "%s"' % repo))
        if not os.path.exists(os.path.join(repo, "Cargo.toml")):
            with open(os.path.join(repo, "Cargo.toml"), "w") as f:
                f.write('[package]\nname = "injectorpp"\nversion = "0.4.0"\nedition = "2021"\n\n[dependencies]\nlibc = "0.2"\n\n[workspace]\n')
    env = dict(os.environ, CARGO_TARGET_DIR=tdir, CARGO_NET_OFFLINE="true")
    b = subprocess.run(["cargo", "build", "--offline", "--bin", name], cwd=rdir, env=env, stdout=subprocess.PIPE, stderr=subprocess.STDOUT, text=True)
    if b.returncode != 0:
        return dict(reproduced=False, error="replay program does not build against the tree under check", build_tail=b.stdout[-1500:])
    p = subprocess.run([os.path.join(tdir, "debug", name)] + [str(a) for a in args], stdout=subprocess.PIPE, stderr=subprocess.STDOUT, text=True, timeout=120)
    return dict(reproduced=p.returncode != 0, cmd="%s %s" % (name, " ".join(str(a) for a in args)), exit=p.returncode, transcript=p.stdout[-1500:])


def le(vals, i):
    return int.from_bytes(bytes(vals[i]), "little")


# ------------------------------------------------------------------------------------------------
TB_X86 = "x86-64 decoder/effect table for E9 rel32, 48 B8 imm64, FF E0, 48 C7 C0 imm32, C3 (verif_rt::oracle, restated from the Intel SDM)"
TB_SHIM = "OS model shim/libc: mmap returns MAP_FAILED or a fresh mapping at an address of the OS's choosing; munmap legal only on exactly a live mapping; mprotect records the interval; sysconf(_SC_PAGESIZE) is the ghost page size"
TB_KANI = "Kani 0.68 / CBMC 6.11 (bit-precise machine arithmetic; object-based pointer model), rustc MIR semantics"
TB_HOOK = "T4: an explicit panic! ends the execution (modelled by assume(false) after the hook's assertions); unwinding itself is Rust semantics"

PROPS = {}


def P(pid, **kw):
    PROPS[pid] = kw


for _p in ["C%02d" % i for i in range(1, 18)]:
    P(_p, level="proof", trusted_base=[TB_KANI, TB_SHIM, TB_HOOK], assumptions=[], claimed=False)


def claim(pid, level_text, level_note, **kw):
    PROPS[pid].update(claimed=True, level_text=level_text, level_note=level_note, **kw)

H("c01_enc_lands", module="verif_amd64.rs", props=["C01", "C13"], fns=[(AMD, "generate_branch_to_target_function")],
  covers=["COVER:end", "COVER:short-form", "COVER:long-form"])

_LIFE_FNS = [(AMD, "replace_function_with_other_function"), (AMD, "replace_function_return_boolean"), (AMD, "generate_will_return_boolean_jit_code"), (AMD, "patch_and_guard"),
             (AMD, "generate_branch_to_target_function"), (COM, "allocate_jit_memory"), (COM, "allocate_jit_memory_unix"), (COM, "read_bytes"), (COM, "new"), (COM, "drop"),
             (COM, "patch_function", 0), (COM, "make_memory_writable_and_executable"), (COM, "make_memory_writable_and_executable_linux"), (COM, "inject_asm_code"), (COM, "clear_cache")]
H("lifecycle_near", module="verif_amd64.rs", props=["C01", "C02", "C03", "C11", "C12", "C13", "C17"], fns=_LIFE_FNS, covers=["COVER:end"], min_obligations=15)
H("lifecycle_bool", module="verif_amd64.rs", props=["C01", "C02", "C03", "C10", "C12", "C17"], fns=_LIFE_FNS, covers=["COVER:end", "COVER:true"], min_obligations=15)
H("lifecycle_far", module="verif_amd64.rs", props=["C01", "C02", "C03", "C12", "C17"], fns=_LIFE_FNS, covers=["COVER:end", "COVER:long-entry"], min_obligations=15)

def _page_back(vals):
    """counterexample (off, len, page-size selector) -> bytes between the entry and the page end for the
    native 5-byte patch on 4 KiB pages: the same straddle, on the real code in a real process"""
    off, ln, sel = le(vals, 0), le(vals, 1), le(vals, 2)
    ps = {0: 16, 1: 32, 2: 4096, 3: 16384}.get(sel, 65536)
    room = ps - off % ps
    return max(1, min(4, room)) if room < ln else 16


_PAGE_FNS = [(COM, "patch_function", 0), (COM, "make_memory_writable_and_executable"), (COM, "make_memory_writable_and_executable_linux"), (COM, "inject_asm_code")]
H("c01_page_cover", module="verif_common.rs", props=["C01"], fns=_PAGE_FNS, covers=["COVER:end", "COVER:straddles", "COVER:straddles-two"],
  replay=lambda vals, verif: _replay_bin("c01_page_span", [_page_back(vals)], verif))
H("c01_page_cover_seq", module="verif_common.rs", props=["C01"], fns=_PAGE_FNS, covers=["COVER:end", "COVER:same-first-page-then-straddle"])

INT = "injector_core/internal.rs"
VER = "interface/verifier.rs"
FPT = "interface/func_ptr.rs"
MI = "verif_injector.rs"
_MODS_INJ = dict(module=MI, extra_modules=["verif_internal.rs"])
H("c01_dispatch", module="verif_internal.rs", props=["C01"], fns=[(INT, "will_execute_guard"), (INT, "will_return_boolean_guard")], covers=["COVER:end", "COVER:bool", "COVER:raw"])
H("c01_flavour_raw", props=["C01", "C02"], fns=[(INJ, "when_called"), (INJ, "will_execute_raw")], **_MODS_INJ)
H("c01_flavour_raw_unchecked", props=["C01", "C02"], fns=[(INJ, "when_called_unchecked"), (INJ, "will_execute_raw_unchecked")], **_MODS_INJ)
H("c01_flavour_fake_pair", props=["C01", "C02", "C06"], fns=[(INJ, "will_execute")], **_MODS_INJ)
H("c01_flavour_bool", props=["C01", "C02", "C10"], fns=[(INJ, "will_return_boolean"), (INJ, "signature_returns_bool")], **_MODS_INJ)
_B = "symbolic strings bounded in length L=8 (quick) / 12 (thorough), all printable-ASCII contents"
H("c09_gate_raw", props=["C09", "C05"], fns=[(INJ, "will_execute_raw")], expects_panic=True, bounded=_B, covers=["COVER:end", "COVER:accepted-nontrivial"], **_MODS_INJ)
H("c09_gate_pair", props=["C09", "C05"], fns=[(INJ, "will_execute")], expects_panic=True, bounded=_B, **_MODS_INJ)
H("c09_gate_async", props=["C09", "C05", "C14"], fns=[(INJ, "will_return_async")], expects_panic=True, bounded=_B, **_MODS_INJ)
H("c09_gate_mixed", props=["C09", "C05"], fns=[(INJ, "will_execute_raw"), (INJ, "when_called_unchecked")], expects_panic=True, bounded=_B, covers=[], covers_unreachable=["COVER:not-refused"], **_MODS_INJ)
H("c09_null", props=["C09"], fns=[(FPT, "new")], covers=[], covers_unreachable=["COVER:constructed-from-null"], expect_fail_desc="expect_failed", or_hook=True, min_obligations=2, **_MODS_INJ)
H("c07_reset", props=["C07"], fns=[(INJ, "will_execute")], covers=["COVER:end", "COVER:stale-count"], **_MODS_INJ)
_INJ_FNS = [(INJ, "new", 1), (INJ, "prevent"), (INJ, "lock"), (INJ, "drop")]
H("c04_injector_holds", props=["C04"], fns=_INJ_FNS + [(INJ, "will_execute_raw"), (INJ, "will_return_boolean")], min_obligations=8, **_MODS_INJ)
H("c04_preventer_holds", props=["C04"], fns=_INJ_FNS + [(INJ, "is_active"), (INJ, "default")], min_obligations=6, **_MODS_INJ)
_BK = "install histories of length K over two functions x {raw, boolean} on the real drop glue; all finite histories by the Verus lemma C02.lemma.rev"
H("c02_cycle_raw", props=["C02", "C12", "C03"], fns=_INJ_FNS + [(COM, "drop")], **_MODS_INJ)
H("c02_cycle_bool", props=["C02", "C12", "C03"], fns=_INJ_FNS + [(COM, "drop")], **_MODS_INJ)
for _k in range(1, 8):
    H("c02_order_k%d" % _k, props=["C02", "C12", "C04"], fns=_INJ_FNS, tiers=(("quick", "thorough") if _k <= 4 else ("thorough",)),
      bounded="order of the real drop glue checked for history length K=%d (core replaced by a tagging recorder); all lengths by Vec::pop's contract + lemma_reverse_restores" % _k,
      replay=lambda vals, verif: _replay_bin("c02_history", [0, 0], verif), **_MODS_INJ)
H("c05_dropglue_panicking", props=["C05"], fns=_INJ_FNS + [(VER, "drop")], **_MODS_INJ)
H("c05_verdict_after_restore", props=["C05", "C06"], fns=_INJ_FNS + [(VER, "drop")], expects_panic=True, covers=[], covers_unreachable=["COVER:no-verdict-panic"], **_MODS_INJ)

# ------------------------------------------------------------------------------------------------
claim("C01",
      "Proof: every obligation is discharged for all inputs of its domain by Kani/CBMC on the real functions extracted from /repo/src: the x86-64 encoder for all (origin, target) pairs in the lower canonical half "
      "(2^126 pairs) against an independent decoder; the real installers and PatchGuard::drop over a symbolic 64-byte code arena with symbolic placement; patch_function for every entry offset, patch length and page size "
      "in {16,32,4096,16384,65536}; each public installation flavour against what it hands the core.",
      "Trusted: the x86 decoder table, the OS model (shim), CBMC's object memory model (address arithmetic is decided on integers in the encoder obligation), that the CPU executes the bytes; allocate_jit_memory is replaced by its contract in the effect harnesses (the contract is proved by Verus under C11).",
      trusted_base=[TB_KANI, TB_SHIM, TB_HOOK, TB_X86])
claim("C02",
      "Proof of the per-guard contracts (saved bytes == bytes before the patch; drop restores exactly them, frees exactly its mapping) on the real installer/drop for all arena contents and placements, "
      "one whole real lifetime (post-state == pre-state); the restoration ORDER is proved UNBOUNDED by Verus on the text of `impl Drop for InjectorPP` (any vector length: every guard dropped exactly once, newest first) and, per history length K (K<=4 quick / <=7 thorough, core replaced by a tagging recorder) and per installation flavour, by Kani on the compiled drop glue; byte-exact restoration for all finite histories then follows by the Verus induction lemma over the per-guard contracts.",
      "Trusted: vstd's specification of Vec::pop, rustc's drop order of fields (guards before the lock: checked by the Kani lock monitor); the Kani order obligations are bounded in K and labelled so; two real installations in one Kani harness exceed CBMC's capacity (65 GB), so histories are composed modularly.",
      trusted_base=[TB_KANI, TB_SHIM, TB_HOOK, TB_X86])
claim("C04",
      "Proof (sequential) of lock containment on the real code: a live InjectorPP / Preventer holds LOCK_FUNCTION from construction to drop; every OS-visible step of installing and restoring happens while it is held; it is released afterwards and can be retaken. "
      "Schedules are discharged by the assumed contract of std::sync::Mutex (at most one guard at a time).",
      "Assumed, not verified: std::sync::Mutex mutual exclusion under every schedule, and that some waiter eventually acquires it (liveness). Kani does not execute threads. The poisoned arm of NoPoisonMutex::lock cannot be driven under Kani (its std is built with panic=abort); it is decided by the Verus unit lock_nopoison against assumed specifications of Mutex::lock / PoisonError::into_inner: on both arms the guard of this very mutex is returned and no panic is raised.",
      level="proof")
claim("C07",
      "Proof: for every prior value of the call-site counter and every expectation N, after the real will_execute the counter is 0 and the registered verifier is the one handed in.",
      "Trusted: the counter reached through the verifier is the static the fake increments (shown per fake! arm under C06/C08).")

# ------------------------------------------------------------------------------------------------
# C06 / C08: one harness per arm of fake! found in /repo at check time
MAC = "interface/macros.rs"


def _macro_files(repo, skip=()):
    arms, arms_text, lines, harness_text = gen_macros.generate(repo, skip)
    return {
        "verif_arms": dict(parent=INJ, dest="interface/injector/verif_arms.rs", modline="mod verif_arms;", text=arms_text, gate=False),
        "verif_macros": dict(parent=INJ, dest="interface/injector/verif_macros.rs", modline="mod verif_macros;", text=harness_text),
    }


GENERATORS["macros"] = _macro_files


def macros_precheck(crate, env):
    """C08.arm<k>.compiles — rustc is the checker: the extracted crate with one instantiation per arm must
    type-check. A failing arm is identified from the diagnostic spans, reported, and left out of the
    crate that goes to Kani so that the other arms are still decided."""
    repo = extract.REPO
    arms, arms_text, lines, _h = gen_macros.generate(repo)
    res = dict(obligations={}, failures=[], undecided=[], skip=set())
    unparsed = [a for a in arms if not a["parsed"]]
    for a in unparsed:
        res["undecided"].append("fake! arm %d (macros.rs line %d) has a matcher this generator does not understand: %s" % (a["idx"], a["line"], a["matcher"][:120]))
    env = dict(env)
    env.pop("RUSTFLAGS", None)
    env["CARGO_TARGET_DIR"] = os.path.join(os.path.dirname(crate), "td", "precheck")
    p = subprocess.run(["cargo", "check", "--offline", "--message-format=json", "--lib"], cwd=crate, env=env, stdout=subprocess.PIPE, stderr=subprocess.PIPE, text=True)
    bad = {}
    other = []
    for line in p.stdout.split("\n"):
        if not line.startswith("{"):
            continue
        try:
            m = json.loads(line)
        except Exception:  # noqa: BLE001
            continue
        msg = m.get("message")
        if m.get("reason") != "compiler-message" or not msg or msg.get("level") != "error":
            continue
        hit = None

        def walk(sp):
            nonlocal hit
            if sp is None:
                return
            if sp.get("file_name", "").endswith("verif_arms.rs"):
                for k, (a, b) in lines.items():
                    if a <= sp["line_start"] <= b:
                        hit = k
            walk((sp.get("expansion") or {}).get("span"))

        for sp in msg.get("spans", []):
            walk(sp)
        if hit is None:
            other.append(msg.get("message", "")[:200])
        else:
            bad.setdefault(hit, []).append(msg.get("message", "")[:200])
    if p.returncode != 0 and not bad and not other:
        res["undecided"].append("cargo check of the extracted crate failed: " + p.stderr[-400:])
    if other and not bad:
        res["undecided"].append("the extracted crate does not compile for a reason not attributable to a fake! arm: " + "; ".join(other[:3]))
    for a in arms:
        if not a["parsed"]:
            continue
        oid = "C08.arm%d.compiles" % a["idx"]
        if a["idx"] in bad:
            res["obligations"][oid] = "FAILURE"
            res["failures"].append(dict(obligation=oid, desc="fake! arm %d (macros.rs line %d: %s) does not compile for a well-typed use: %s" % (a["idx"], a["line"], a["matcher"][:100], "; ".join(bad[a["idx"]][:2])), loc="src/interface/macros.rs:%d" % a["line"], kind="obligation"))
            res["skip"].add(a["idx"])
        elif not other and (p.returncode == 0 or bad):
            res["obligations"][oid] = "SUCCESS"
    res["n_arms"] = len(arms)
    return res


_ARMS = []
try:
    _ARMS = gen_macros.enumerate_arms(extract.REPO)
except Exception as _e:  # noqa: BLE001  (lost anchor is reported by the driver when it extracts)
    _ARMS = []
_MACRO_COMMON = dict(module_dest="interface/injector/verif_macros.rs", generator="macros", precheck="macros", fns=[(MAC, "__assert_future_output")], extra_modules=[])
for _a in _ARMS:
    if not _a["parsed"]:
        continue
    _k = _a["idx"]
    H("arm_%d" % _k, props=["C08", "C06", "C09"] if _a["times"] else ["C08", "C09"], arm=_k, expects_panic=(_a["when"] or _a["times"]), group="arms", covers=["COVER:end"], **_MACRO_COMMON)
    if _a["times"]:
        H("rmw_%d" % _k, props=["C06"], arm=_k, group="arms", **_MACRO_COMMON)
PRECHECKS = {"macros": macros_precheck}

H("c06_verdict", module="verif_verifier.rs", props=["C06", "C05"], fns=[(VER, "drop")], expects_panic=True, covers=["COVER:end", "COVER:quiet-while-panicking", "COVER:satisfied"])


def scan_verdict_message(repo):
    """not verifier-decided: that the verdict message names both numbers. Syntactic scan of the format string."""
    t = open(os.path.join(repo, "src", VER)).read()
    body = extract.fn_text(t, "drop")
    m = re.search(r'panic!\(\s*"([^"]*)"', body)
    if not m:
        return None, "no panic! with a literal message found in CallCountVerifier::drop"
    msg = m.group(1)
    ok = "{expected}" in msg and "{call_times}" in msg
    return ok, "verdict message %r %s both the expected and the actual count" % (msg, "names" if ok else "does NOT name")


STATIC["c06_message_names_both_numbers"] = dict(props=["C06"], fn=scan_verdict_message, obligation="C06.verdict.message",
                                                 replay_static=lambda verif: _replay_bin("c06_message", [], verif))

# ------------------------------------------------------------------------------------------------
# Verus units
import verus_alloc  # noqa: E402


def _lemma_builder(fname):
    def b(repo):
        with open(os.path.join(VERIF, "contracts", "lemmas", fname)) as f:
            return f.read(), [dict(rule="lemma-file", file=fname)]
    return b


def _alloc_builder(variant):
    return lambda repo: verus_alloc.build(repo, variant)


_ALLOC_FN = [(COM, "allocate_jit_memory_unix")]
VERUS["alloc_linux_x86_64"] = dict(props=["C11", "C12"], builder=_alloc_builder("linux_x86_64"), fns=_ALLOC_FN, expect_verified=10)
VERUS["alloc_linux_aarch64"] = dict(props=["C11"], builder=_alloc_builder("linux_aarch64"), fns=_ALLOC_FN, expect_verified=10)
VERUS["alloc_macos_aarch64"] = dict(props=["C11", "C15"], builder=_alloc_builder("macos_aarch64"), fns=_ALLOC_FN, expect_verified=10)
VERUS["lemmas_history"] = dict(props=["C02", "C03", "C12"], builder=_lemma_builder("history.rs"), expect_verified=10, lemma=True)
VERUS["lemmas_counting"] = dict(props=["C06"], builder=_lemma_builder("counting.rs"), expect_verified=4, lemma=True)
VERUS["lemmas_reach"] = dict(props=["C11", "C15"], builder=_lemma_builder("reach.rs"), expect_verified=3, lemma=True)

# ------------------------------------------------------------------------------------------------
# AArch64 (T1-extracted files compiled for the host)
A64G = "injector_core/arm64_codegenerator.rs"
A64P = "injector_core/patch_arm64.rs"
UTL = "injector_core/utils.rs"
TB_A64 = "A64 decoder/interpreter for MOVZ, MOVK, BR, RET, B, ADRP, ADD (imm), NOP (verif_rt::oracle, restated from the Arm ARM C6.2)"
_GEN_FNS = [(UTL, "u64_to_bits"), (UTL, "u8_to_bits"), (UTL, "bool_array_to_u32"), (A64G, "emit_movz"), (A64G, "emit_movk"), (A64G, "emit_movz_from_address"), (A64G, "emit_movk_from_address"), (A64G, "emit_br"), (A64G, "emit_ret"), (A64G, "emit_ret_x30")]
H("c15_bits", module="verif_a64gen.rs", props=["C15"], fns=_GEN_FNS[:3])
H("c15_movz_movk", module="verif_a64gen.rs", props=["C15"], fns=_GEN_FNS)
H("c15_from_address", module="verif_a64gen.rs", props=["C15"], fns=_GEN_FNS)
H("c15_br_ret", module="verif_a64gen.rs", props=["C15"], fns=_GEN_FNS)
H("c15_long_jump", module="verif_a64gen.rs", variant="macos", props=["C15", "C11"], fns=[(A64G, "maybe_emit_long_jump")], covers=["COVER:end", "COVER:short", "COVER:long"])
H("c15_abs", module="verif_arm64.rs", props=["C15", "C13", "C17"], fns=[(A64P, "generate_will_execute_jit_code_abs"), (A64P, "append_instruction"), (COM, "inject_asm_code")] + _GEN_FNS, timeout=3000)
H("c15_bool", module="verif_arm64.rs", props=["C15", "C10", "C13"], fns=[(A64P, "generate_will_return_boolean_jit_code"), (A64P, "write_instruction")] + _GEN_FNS)
H("c11_a64_range", module="verif_arm64.rs", props=["C11", "C15", "C12", "C02"], fns=[(A64P, "apply_branch_patch"), (COM, "patch_function", 0)], covers=["COVER:end", "COVER:lowest", "COVER:highest"])
H("c02_a64_top", module="verif_arm64.rs", props=["C02", "C01", "C11", "C12", "C10"], fns=[(A64P, "replace_function_with_other_function"), (A64P, "replace_function_return_boolean")], covers=["COVER:end", "COVER:bool-then-fake"], timeout=240)
H("c02_a64_top_fixed_addr", module="verif_arm64.rs", props=["C02", "C01", "C11", "C12", "C10"], fns=[(A64P, "replace_function_with_other_function"), (A64P, "replace_function_return_boolean")], covers=["COVER:end", "COVER:bool-then-fake"], bounded="history depth 2 (one earlier installation), one concrete entry address", timeout=240)
H("c01_dispatch_a64", module="verif_arm64.rs", variant="arch_a64", props=["C01", "C10"], fns=[(INT, "will_execute_guard"), (INT, "will_return_boolean_guard"), (A64P, "replace_function_with_other_function"), (A64P, "replace_function_return_boolean")], covers=["COVER:end", "COVER:bool", "COVER:raw"])
H("c15_a64_out_of_range_refused", module="verif_arm64.rs", props=["C15", "C11", "C05"], fns=[(A64P, "apply_branch_patch")], expects_panic=True, covers=[], covers_unreachable=["COVER:wrapped-branch-written"])

ARM = "injector_core/patch_arm.rs"
TB_A32 = "A32/T32 decoder for LDR (literal), BX, NOP incl. Align(PC,4), and the AAPCS32 callee-saved set (verif_rt::oracle)"
_ARM_FNS = [(ARM, "replace_function_with_other_function"), (ARM, "replace_function_return_boolean")]
_ARM_ASSUME = "read_bytes / patch_function replaced by recorders (32-bit addresses are not host pointers)"
for _n in ["c16_a32", "c16_t32_aligned", "c16_t32_unaligned"]:
    H(_n, module="verif_arm.rs", props=["C16"], fns=_ARM_FNS, min_obligations=9)
H("c16_bool", module="verif_arm.rs", props=["C16", "C10"], fns=_ARM_FNS)
H("c16_again", module="verif_arm.rs", props=["C16", "C02"], fns=_ARM_FNS)
H("c13_arm_args", module="verif_arm.rs", props=["C13"], fns=_ARM_FNS, covers=["COVER:end", "COVER:thumb", "COVER:arm"])
H("c16_bool_modular", module="verif_arm.rs", props=["C10", "C16"], fns=_ARM_FNS, covers=["COVER:end", "COVER:true"])
H("c01_dispatch_arm", module="verif_arm.rs", variant="arch_arm", props=["C01", "C16", "C10"], fns=[(INT, "will_execute_guard"), (INT, "will_return_boolean_guard")] + _ARM_FNS, covers=["COVER:end", "COVER:bool", "COVER:raw"])

# ------------------------------------------------------------------------------------------------
# C10.gate: one harness per member of the enumerated signature family
import gen_gate  # noqa: E402


def _gate_files(repo, skip=()):
    fam, text = gen_gate.generate("thorough")
    return {"verif_gate": dict(parent=INJ, dest="interface/injector/verif_gate.rs", modline="mod verif_gate;", text=text)}


GENERATORS["gate"] = _gate_files
_QUICK_SIGS = {s_ for s_, _b in gen_gate.family("quick")}
for _i, (_sig, _b) in enumerate(gen_gate.family("thorough")):
    H("gate_%d" % _i, props=["C10", "C05"], module_dest="interface/injector/verif_gate.rs", generator="gate", group="gate", extra_modules=[MI, "verif_internal.rs"],
      fns=[(INJ, "will_return_boolean"), (INJ, "signature_returns_bool")], expects_panic=(not _b), covers=(["COVER:end"] if _b else []), signature=_sig,
      tiers=("quick", "thorough") if _sig in _QUICK_SIGS else ("thorough",),
      bounded="signature family enumerated exhaustively from the grammar in contracts/gen_gate.py (not all strings)",
      replay=(lambda vals, verif, _s=_sig, _e=_b: _replay_bin("c10_gate", [_s, "accept" if _e else "refuse"], verif)))

MAC_FNS = [(MAC, "__assert_future_output")]
_SIGB = "enumerated family of 16 function types (arity 0-3, one parameter type, return type, & vs &mut, unsafe, extern C / system) x every macro form; type names are rendered by the compiler that builds the harness"
for _n in ["c09_sig_func_explicit", "c09_sig_func_sugar", "c09_sig_unchecked", "c09_family_distinct"]:
    H(_n, module="verif_sigs.rs", props=["C09"], fns=MAC_FNS, bounded=_SIGB)

_ASYNC_FNS = [(INJ, "when_called_async"), (INJ, "when_called_async_unchecked"), (INJ, "will_return_async"), (INJ, "will_return_async_unchecked")]
_ASB = "enumerated future shapes (free fn / method, by-value / by-reference parameters; outputs (), u32, bool, 64-byte struct)"
for _n in ["c14_funnel_unit", "c14_funnel_u32", "c14_funnel_bool_param", "c14_funnel_big", "c14_funnel_method_val", "c14_funnel_by_ref_unchecked"]:
    H(_n, module="verif_async.rs", extra_modules=["verif_internal.rs"], props=["C14", "C01"], fns=_ASYNC_FNS, bounded=_ASB)
for _n in ["c14_ret_fresh", "c14_sig", "c14_siblings"]:
    H(_n, module="verif_async.rs", extra_modules=["verif_internal.rs"], props=["C14"], fns=MAC_FNS, bounded=_ASB)

H("c05_nomem", module="verif_amd64.rs", props=["C05", "C01", "C11"], fns=_LIFE_FNS, expects_panic=True, covers=[], covers_unreachable=["COVER:installed-without-memory"])
H("c05_mprotect_fails", module="verif_amd64.rs", props=["C05", "C01"], fns=_LIFE_FNS, expects_panic=True, covers=[], covers_unreachable=["COVER:installed-despite-mprotect-failure"])
H("c17_inject", module="verif_common.rs", props=["C17", "C03"], fns=[(COM, "inject_asm_code"), (COM, "clear_cache")], covers=["COVER:end", "COVER:full"])
for _h in ("c11_a64_range",):
    HARNESSES[_h]["props"] += ["C13", "C17", "C03"]
HARNESSES["c15_long_jump"]["props"] += ["C13"]

# ------------------------------------------------------------------------------------------------
TB_RUSTC = "rustc semantics taken as given: field drop order, destructors run on unwind, Vec::push/pop order, monomorphisation gives distinct items distinct addresses (no identical-code folding at opt-level 0)"
claim("C03",
      "Proof: frame conditions over every byte of the modelled code memory (nondeterministic index over the whole arena, symbolic placement) around the real x86-64 installers, PatchGuard::drop, inject_asm_code and the AArch64 apply_branch_patch: nothing outside the entry patch (<= 12 bytes on x86-64, 12 on A64) and the trampoline mapping changes; after drop everything outside the released trampoline is restored. "
      "Every dereference of the real code is bounds-checked by CBMC, so a write anywhere else is itself a reported failure. Composition over histories by lemma_frame_union.",
      "Assumes CBMC's object memory model (64-byte arena + far object stand for the process's code mappings) and that distinct functions / generic instantiations / sibling poll functions are distinct addresses (C14.siblings.distinct shows it for the harness crate).",
      trusted_base=[TB_KANI, TB_SHIM, TB_HOOK, TB_X86, TB_RUSTC])
claim("C05",
      "Proof of the function-level obligations that unwinding relies on: every library-raised refusal (signature mismatch through all checked entry points, non-bool target over the enumerated signature family, checked/unchecked pairing, no memory, mprotect failure, A64 out-of-range) is raised before any OS event with code memory untouched; "
      "CallCountVerifier::drop never panics while a panic is in flight (all counts / expectations); the whole InjectorPP drop glue run under panicking()==true with unsatisfied expectations restores, releases, unlocks and raises nothing; the verdict panic is raised only after restoration.",
      "Not decided here: the unwinding mechanism itself (Kani has none): that destructors of live values run on unwind and that a second panic aborts is Rust semantics. The poisoned arm of NoPoisonMutex::lock is decided by Verus (unit lock_nopoison) against assumed std specifications, since Kani's std is panic=abort. A failed mprotect leaves the freshly mapped trampoline behind (not claimed by C05/C12).",
      trusted_base=[TB_KANI, TB_SHIM, TB_HOOK, TB_RUSTC])
claim("C06",
      "Proof per arm of fake! that carries `times` (28 on the pinned tree, enumerated from the source at check time): for all N, all counter values and all arguments, over two consecutive calls: admitted iff `when` holds and fewer than N matching calls came before; admitted calls are counted exactly once by exactly one atomic RMW; rejected calls are not counted and have no side effect; "
      "CallCountVerifier::drop panics iff count != N and no panic is in flight. The step to k calls / any interleaving is the Verus lemma over these contracts plus the axiom that atomic RMWs on one location are totally ordered.",
      "Concurrency is discharged by the atomic-RMW axiom + the footprint obligation (exactly one fetch_add, no load/store), not by exploring schedules. That the message names both numbers is a syntactic scan (reported as such).",
      trusted_base=[TB_KANI, TB_HOOK, "atomic read-modify-write operations on one location are indivisible and totally ordered (C++11/Rust memory model)"])
claim("C08",
      "Proof per arm, for every arm found in macro_rules! fake at check time (52 on the pinned tree; the count is measured): rustc type-checks one canonical instantiation (C08.arm<k>.compiles), and Kani discharges the common meaning for all N / counter / argument values over two consecutive calls: `when` guards the call, a rejected call has no side effect, `assign` runs exactly once before the result is produced, `returns` is evaluated on every call with the arguments in scope, `times` is a call budget, a verifier exists iff `times` is given.",
      "One canonical operand set per arm (fn(a: &mut i32, b: i32) -> i32 / ()); the arm is identified by its matcher, so an added arm is picked up automatically and an arm the generator cannot parse makes the check undecided, not green.",
      trusted_base=[TB_KANI, TB_HOOK, "rustc as the checker of well-typedness of the expansions"])
claim("C09",
      "Gate: through the real will_execute_raw / will_execute / will_return_async, for ALL pairs of printable-ASCII signature strings up to length 8 (12 in the thorough tier): identical text => installed exactly once, any difference => signature-mismatch panic before any OS event; checked/unchecked pairing refused; null pointer refused by FuncPtr::new. "
      "Macros: every func!/closure!/fake!/async macro form records type_name::<T>() for each member of an enumerated 16-type family (unchecked forms record \"\"), and all ordered pairs of structurally different members have different names.",
      "The Kani gate obligations are bounded in string length (labelled); the Verus unit gate_unbounded proves the same gate contract on the text of will_execute_raw / will_execute / will_return_async / when_called / when_called_unchecked for signature strings of ANY length (vstd's specification of str equality assumed); the type family is enumerated, not all Rust types; type names are rendered by the compiler that builds the harness (trusted); pairs differing only in lifetime spelling are not judged.",
      trusted_base=[TB_KANI, TB_HOOK, "std::any::type_name rendering by rustc"])
claim("C10",
      "Gate: one obligation per member of a signature family enumerated from a grammar (110 quick / 746 thorough members: prefixes x parameter lists x return types incl. returns that merely END in `-> bool`): the real will_return_boolean accepts iff the derivation says the return type is exactly bool, and refuses before any OS event otherwise. "
      "Stub: for both values the x86-64 trampoline is exactly `mov rax, imm32(v); ret` (only rax written, return address popped as by a normal return), the A64 one decodes to `MOVZ X0,#v; RET`, the 32-bit ARM one branches to return_true/return_false; the requested value is what reaches the installer.",
      "signature_returns_bool is decided on the enumerated family (exhaustive over the grammar, not over all strings); that will_return_boolean proceeds only when signature_returns_bool holds of the recorded text, refuses before any request to the core, and passes exactly the value asked for is proved for all strings and values by the Verus unit gate_unbounded (modular: against signature_returns_bool's contract); argument-independence and 'no other effect' follow from the instruction effect tables (trusted).",
      trusted_base=[TB_KANI, TB_SHIM, TB_HOOK, TB_X86, TB_A64])
claim("C11",
      "Proof (Verus, unbounded): the real allocate_jit_memory_unix loop, translated by rules R1-R5, for every target address below 2^47, every page size in {4K,16K,64K} and ANY mmap behaviour (failure or any fresh address, hint not honoured): returns a fresh mapping within the reach of the entry branch (x86-64: +-128 MiB so rel32 always applies; AArch64/Linux: [-2^27, 2^27); macOS: +-2 GiB), every rejected placement is unmapped, the final panic is reached only with nothing left mapped, no overflow, termination. "
      "Kani: for every trampoline the contract allows, the real A64 apply_branch_patch writes B landing exactly on it and never panics; every other displacement is refused with the entry untouched; maybe_emit_long_jump for all pc/target within +-(4 GiB - 4 KiB).",
      "Assumed: the mmap/munmap/sysconf specifications (external_body); u64::abs_diff specification; user addresses below 2^47; R4/R5 helper functions int_to_ptr / vpanic are trusted stubs. Windows allocator not covered.",
      trusted_base=["Verus 0.2026.09.13 / Z3", TB_KANI, TB_SHIM, TB_A64])
claim("C12",
      "Proof: the guard returned by every installer owns exactly the (address, length) mmap returned for that installation; PatchGuard::drop calls munmap exactly once with exactly that pair (the OS model rejects anything else); a whole real lifetime leaves the live set unchanged; the allocator's frame (Verus) adds exactly one mapping; cycles and any number of installs by lemma_live_set + ownership (each guard dropped once: C02.order.once).",
      "Trusted: Rust ownership drops each guard exactly once (a scan for mem::forget / ManuallyDrop in src/ is not needed: the order obligation counts the drops). An installation that fails after its trampoline was mapped (mprotect failure) leaks that mapping; the property speaks of successful installations.",
      trusted_base=[TB_KANI, TB_SHIM, TB_RUSTC])
claim("C13",
      "Proof modulo the ISA effect tables: the redirect consists only of byte sequences characterised exactly by the encoder/trampoline obligations, and for all addresses their architectural effect is: x86-64 writes nothing but rax (short form: nothing at all), no stack or memory access; A64 trampoline writes only x9, the Linux entry branch nothing, the macOS long entry only x16. Hence argument, result, hidden-return-slot, callee-saved registers, stack pointer and stack arguments are untouched.",
      "The last step (no instruction writes them => they are preserved) uses the trusted effect tables. The long x86 form clobbers rax/al, which the SysV variadic convention uses for the vector-register count; the property's register list does not include it (noted). 32-bit ARM is decided under C16.",
      trusted_base=[TB_KANI, TB_X86, TB_A64])
claim("C14",
      "Proof of the components, composition on paper: when_called_async / _unchecked ask the core to patch exactly <F as Future>::poll of the awaited expression's future (enumerated shapes) with exactly the function async_return! generated; that function returns Poll::Ready(value) with the value evaluated afresh at every call; both macros record the same signature iff the output types are written the same, and a mismatch is refused before any write (async gate, all strings up to the bound); sibling async functions are distinct poll functions. With C01 (entry lands on the replacement), C03 (frame) and C02 (restore) this gives the statement.",
      "Trusted: calling `fn() -> Poll<T>` in place of `poll(self, cx)` is ABI-compatible (same return convention, extra arguments ignored); no identical-code folding of two poll bodies. Future shapes are enumerated, executors/threads are not modelled.",
      trusted_base=[TB_KANI, TB_HOOK, TB_RUSTC])
claim("C15",
      "Proof against an independent A64 decoder/interpreter, all inputs symbolic, loops of constant trip count fully unwound: bit helpers; MOVZ/MOVK/BR/RET emitters for all operands; the 5-instruction trampoline for ALL 2^64 fake addresses ends in BR x9 with x9 == fake and writes only x9; the boolean stub is MOVZ X0,#v; RET; the Linux entry is B landing exactly on the trampoline for every displacement the allocator contract allows and every other displacement is refused, not wrapped; the macOS entry (T5) is B or ADRP/ADD/BR x16 landing exactly on the target for all pc/target within +-(4 GiB - 4 KiB).",
      "Trusted: the decoder/interpreter table; that the files compiled for the host (T1 deletes only the #![cfg(target_arch)] line) behave as on AArch64 (pure integer/bit code). The dsb/isb inline asm is cfg'd out on the host.",
      trusted_base=[TB_KANI, TB_A64, TB_SHIM])
claim("C16",
      "Proof against independent A32/T32 decoders for ALL 2^32 x 2^32 (target, fake) pairs in each of the three entry cases: the patch decodes to (NOP,) LDR literal + BX through the loaded register; the word actually read (Align(PC,4) rule) is the one holding the fake's address, Thumb bit included; saved and written ranges are exactly [entry & !1, +12); the boolean form delegates to return_true / return_false. "
      "The register clause fails on the pinned tree (r7 in Thumb state, r9 in ARM state are callee-saved): recorded as two known findings; any other preserved register would still be reported.",
      "read_bytes / patch_function are replaced by recorders (32-bit addresses are not host pointers); no 32-bit ARM target or emulator exists here, so nothing is executed.",
      trusted_base=[TB_KANI, TB_A32])
claim("C17",
      "Proof on the Linux variants: event log of the flush primitive with a content snapshot: after inject_asm_code exactly [dest, dest+len) is flushed and already holds the final bytes; through the real x86-64 installers and PatchGuard::drop every arena byte that changed (nondeterministic index) is covered by a later flush whose snapshot equals its final value, and the last event of a restoration is a flush covering the restored range; same for the A64 trampoline writer and apply_branch_patch.",
      "Not covered: the effect of __clear_cache itself, the dsb sy; isb inline asm (cfg'd out on the host), Windows, and macOS, whose patch_function needs the mach2 crate (absent offline); on macOS trampoline contents go through inject_asm_code whose clear_cache is empty there (reading note, not claimed).",
      trusted_base=[TB_KANI, TB_SHIM])
for _p, _extra in (("C02", [TB_RUSTC]), ("C04", ["std::sync::Mutex: at most one guard at a time under every schedule (assumed library contract)"]), ("C07", [])):
    PROPS[_p]["trusted_base"] = PROPS[_p].get("trusted_base", []) + _extra

for _h in ("c09_gate_raw", "c09_gate_pair", "c09_gate_async", "c09_gate_mixed"):
    HARNESSES[_h]["variant_thorough"] = "long"

# obligations that decide more than the property their name carries
_ALLOC_SHARED = {"C11.alloc.inv.given-back": ["C12"], "C11.alloc.frame": ["C12"], "C11.alloc.clean-failure": ["C12"], "C11.alloc.unmap-own": ["C12"], "C11.alloc.unmap-len": ["C12"], "C11.alloc.fresh": ["C12"]}
VERUS["alloc_linux_x86_64"]["shared"] = _ALLOC_SHARED
HARNESSES["c05_verdict_after_restore"]["props"] += ["C02"]
HARNESSES["c05_dropglue_panicking"]["props"] += ["C02"]
HARNESSES["c05_dropglue_panicking"]["shared"] = {"C05.dropglue.restores": ["C02"], "C05.dropglue.releases": ["C02", "C12"], "C05.dropglue.unlocks": ["C02", "C04"]}
HARNESSES["c05_dropglue_panicking"]["props"] += ["C12", "C04"]

# ------------------------------------------------------------------------------------------------
import gen_sigpairs  # noqa: E402


def _sigpair_files(repo, skip=()):
    _names, text = gen_sigpairs.generate()
    return {"verif_sigpairs": dict(parent=INJ, dest="interface/injector/verif_sigpairs.rs", modline="mod verif_sigpairs;", text=text)}


GENERATORS["sigpairs"] = _sigpair_files
for _h, _which, _i, _j, _q in gen_sigpairs.generate()[0]:
    H(_h, props=["C09", "C05"] + (["C14"] if _which == "async" else []), module_dest="interface/injector/verif_sigpairs.rs", generator="sigpairs", group="sigpairs", extra_modules=[MI, "verif_internal.rs"],
      fns=[(INJ, {"raw": "will_execute_raw", "pair": "will_execute", "async": "will_return_async"}[_which])], expects_panic=(_i != _j), covers=(["COVER:end"] if _i == _j else []),
      tiers=("quick", "thorough") if _q else ("thorough",),
      replay=(lambda vals, verif, _a=gen_sigpairs.FAMILY[_i], _b=gen_sigpairs.FAMILY[_j], _e=(_i == _j): _replay_bin("c09_gate", [_a, _b, "accept" if _e else "refuse"], verif)),
      bounded="enumerated family of %d function types: every ordered pair through the real will_execute_raw, diagonal + name-extension pairs through will_execute / will_return_async; concrete names" % len(gen_sigpairs.FAMILY))
for _h in ("c09_gate_raw", "c09_gate_pair", "c09_gate_async", "c09_gate_mixed"):
    HARNESSES[_h]["timeout"] = 400

H("c11_alloc_twin", module="verif_common.rs", props=["C11", "C12"], fns=[(COM, "allocate_jit_memory"), (COM, "allocate_jit_memory_unix")], expects_panic=True,
  covers=["COVER:end", "COVER:clipped-window", "COVER:two-rejections"], bounded="page size forced to 64 MiB so that the search makes at most 5 attempts (the unbounded proof is the Verus unit alloc_*)")
HARNESSES["c11_alloc_twin"]["shared"] = {"C11.twin.frame": ["C12"]}

# ------------------------------------------------------------------------------------------------
# Kani function contracts on the A64 emitters (T3) + the modular form of C15.abs
_O = "crate::verif_rt::oracle"
_A64_CONTRACTS = [
    dict(file=A64G, fn="emit_movz_from_address", lines=[
        "kani::requires(start % 16 == 0 && start <= 48)",
        "kani::ensures(|r: &[bool; 32]| %s::a64_decode(%s::pack32(r)) == Some(%s::A64::Movz { sf, hw: %s::pack2(&hw), imm16: ((address >> start) & 0xFFFF) as u16, rd: %s::pack5(&register_name) }))" % (_O, _O, _O, _O, _O)]),
    dict(file=A64G, fn="emit_movk_from_address", lines=[
        "kani::requires(start % 16 == 0 && start <= 48)",
        "kani::ensures(|r: &[bool; 32]| %s::a64_decode(%s::pack32(r)) == Some(%s::A64::Movk { sf, hw: %s::pack2(&hw), imm16: ((address >> start) & 0xFFFF) as u16, rd: %s::pack5(&register_name) }))" % (_O, _O, _O, _O, _O)]),
    dict(file=A64G, fn="emit_br", lines=[
        "kani::ensures(|r: &[bool; 32]| %s::a64_decode(%s::pack32(r)) == Some(%s::A64::Br { rn: %s::pack5(&register_name) }))" % (_O, _O, _O, _O)]),
]
# The proof_for_contract harnesses of the two *_from_address emitters exist in the module (stub_verified needs
# them) but are NOT run: Kani's contract instrumentation needs ~60 GB on them (measured, OOM). Their
# post-condition is the very predicate discharged by the plain harness c15_from_address for all inputs.
for _n in ("contract_emit_br",):
    H(_n, module="verif_a64gen.rs", props=["C15"], fns=_GEN_FNS, contracts=_A64_CONTRACTS, covers=[], min_obligations=1, contract_proof=True, timeout=1500)
H("c15_abs_modular", module="verif_arm64.rs", extra_modules=["verif_a64gen.rs"], props=["C15", "C13"], fns=[(A64P, "generate_will_execute_jit_code_abs")] + _GEN_FNS, contracts=_A64_CONTRACTS)
MODULE_CONTRACTS["verif_arm64.rs"] = _A64_CONTRACTS
MODULE_CONTRACTS["verif_a64gen.rs"] = _A64_CONTRACTS
MODULE_DEPS = {"verif_arm64.rs": ["verif_a64gen.rs"]}
HARNESSES["c15_abs_modular"]["note"] = "callee contracts: emit_br proved by #[kani::proof_for_contract]; emit_movz/movk_from_address stated by T3 and discharged by the plain harness c15_from_address (same predicate for all inputs) because Kani's contract instrumentation needs ~60 GB on them"
_FL_SHARED = {"C02.guard.kept.flavours": ["C14", "C12"], "C02.no-early-restore": ["C14", "C12"], "C02.order.once.flavours": ["C14", "C12"], "C02.order.reverse.flavours": ["C14"]}
H("c02_order_async_refake", props=["C02", "C14", "C12"], fns=_INJ_FNS + _ASYNC_FNS, shared=_FL_SHARED, timeout=400,
  bounded="one history: fake / unchecked re-fake / re-fake of the same async function (K=3), core replaced by a tagging recorder", **_MODS_INJ)
H("c02_order_sync_flavours", props=["C02", "C12"], fns=_INJ_FNS, shared=_FL_SHARED, timeout=400,
  bounded="one history: the same target through each of the four synchronous installation calls (K=4), core replaced by tagging recorders", **_MODS_INJ)
for _n in ("c02_bool_refake_tt", "c02_bool_refake_ff", "c02_bool_refake_tf", "c02_bool_refake_tbt"):
    H(_n, props=["C02", "C12", "C10"], fns=_INJ_FNS, shared=_FL_SHARED, timeout=600, covers=["COVER:end"],
      bounded="one history of length 3 on one target: forced boolean / (replacement | other boolean) / forced boolean, concrete values; core replaced by tagging recorders", **_MODS_INJ)
H("c02_order_async_refake2", props=["C02", "C14", "C12"], fns=_INJ_FNS + _ASYNC_FNS, shared=_FL_SHARED, timeout=600,
  bounded="one history: the same async function faked twice (K=2), core replaced by a tagging recorder", **_MODS_INJ)
for _h in ("c02_order_async_refake", "c02_order_async_refake2"):
    HARNESSES[_h]["replay"] = lambda vals, verif: _replay_bin("c14_refake", [], verif)

import verus_lock  # noqa: E402
VERUS["lock_nopoison"] = dict(props=["C04", "C05"], builder=verus_lock.build, fns=[(INJ, "lock")], expect_verified=1,
                              shared={"C04.lock.guard-of-this-mutex": ["C05"], "C05.lock.never-panics": ["C04"]})

VERUS["lock_acquire"] = dict(props=["C04", "C05"], builder=verus_lock.build_acquire, fns=[(INJ, "lock"), (INJ, "new"), (INJ, "prevent")], expect_verified=3,
                             shared={"C04.lock.no-self-deadlock": ["C05"], "C05.acquire.never-panics": ["C04"]})

H("c15_entry_macos", module="verif_arm64.rs", variant="macos", props=["C15", "C11", "C12", "C03"], fns=[(A64P, "apply_branch_patch"), (A64G, "maybe_emit_long_jump")], covers=["COVER:end", "COVER:long-form", "COVER:short-form"],
  shared={"C15.entry.macos.lands": ["C11"]})

H("c05_no_guard_before_writable", module="verif_amd64.rs", props=["C05", "C12"], fns=[(AMD, "patch_and_guard"), (COM, "new"), (COM, "drop")], expects_panic=True, covers=[], covers_unreachable=["COVER:installed-despite-mprotect-failure"])
for _h in ("lifecycle_near", "lifecycle_bool", "lifecycle_far"):
    HARNESSES[_h]["props"] = sorted(set(HARNESSES[_h]["props"]) | {"C11"})

import verus_drop  # noqa: E402
VERUS["drop_order_unbounded"] = dict(props=["C02", "C12"], builder=verus_drop.build, fns=[(INJ, "drop")], expect_verified=2,
                                     shared={"C02.order.all-dropped": ["C12"], "C02.order.reverse.unbounded": ["C12"]})

# wave-4 strengthenings: obligations that also decide a neighbouring property
VERUS["alloc_linux_x86_64"]["props"] = sorted(set(VERUS["alloc_linux_x86_64"]["props"]) | {"C03"})
VERUS["alloc_linux_x86_64"]["shared"] = dict(VERUS["alloc_linux_x86_64"]["shared"], **{"C11.alloc.unmap-own": ["C12", "C03"], "C11.alloc.unmap-len": ["C12", "C03"]})
HARNESSES["c11_alloc_twin"]["props"] = sorted(set(HARNESSES["c11_alloc_twin"]["props"]) | {"C03"})
HARNESSES["c11_alloc_twin"]["shared"] = {"C11.twin.frame": ["C12", "C03"]}
HARNESSES["c07_reset"]["props"] = sorted(set(HARNESSES["c07_reset"]["props"]) | {"C08", "C06"})
HARNESSES["c07_reset"]["shared"] = {"C07.reset": ["C08", "C06"], "C07.same-verifier": ["C08", "C06"]}
HARNESSES["c06_verdict"]["props"] = sorted(set(HARNESSES["c06_verdict"]["props"]) | {"C08", "C07"})
HARNESSES["c06_verdict"]["shared"] = {"C06.verdict.readonly": ["C08", "C07"], "C06.verdict.panics-when-differs": ["C08"]}


# ------------------------------------------------------------------------------------------------
# C13 (macro side): the function a fake! arm generates must have the calling convention the arm declares.
# CBMC has no notion of calling conventions, so this is a syntactic scan of the arm's transcriber; a flag
# becomes a violation only if a generated native program (24-byte struct passed by value) misbehaves.
def scan_fake_abi(repo):
    arms = gen_macros.enumerate_arms(repo)
    bad = [a for a in arms if a["parsed"] and a.get("declared_kind") and a["declared_kind"] != a["kind"]]
    unknown = [a for a in arms if a["parsed"] and not a.get("declared_kind")]
    scan_fake_abi.flagged = bad
    if unknown:
        return None, "cannot find the `fn fake` item in arm(s) %s" % [a["idx"] for a in unknown]
    if bad:
        return False, "arm(s) %s declare `%s` in func_type but generate `%s fake(..)`" % ([a["idx"] for a in bad], bad[0]["kind"], bad[0]["declared_kind"])
    return True, "all %d arms generate a function with exactly the qualifiers (unsafe / extern ABI) of their func_type" % len(arms)


def replay_fake_abi(verif):
    out = []
    for a in getattr(scan_fake_abi, "flagged", [])[:2]:
        prog, observes = gen_macros.abi_replay_program(a)
        d = os.path.join(verif, "work", "abi_replay_%d" % a["idx"])
        os.makedirs(os.path.join(d, "src"), exist_ok=True)
        open(os.path.join(d, "Cargo.toml"), "w").write('[package]\nname = "abi_replay"\nversion = "0.0.0"\nedition = "2021"\n[dependencies]\ninjectorpp = { path = "%s" }\n[workspace]\n' % extract.REPO.rstrip("/"))
        if not os.path.exists(os.path.join(extract.REPO, "Cargo.toml")):
            open(os.path.join(d, "Cargo.toml"), "w").write('[package]\nname = "abi_replay"\nversion = "0.0.0"\nedition = "2021"\n[dependencies]\ninjectorpp = { path = "/repo" }\n[workspace]\n')
        open(os.path.join(d, "src", "main.rs"), "w").write(prog)
        env = dict(os.environ, CARGO_TARGET_DIR=os.path.join(verif, "work", "replay-target"), CARGO_NET_OFFLINE="true")
        b = subprocess.run(["cargo", "run", "--offline", "-q"], cwd=d, env=env, stdout=subprocess.PIPE, stderr=subprocess.STDOUT, text=True, timeout=600)
        out.append(dict(arm=a["idx"], exit=b.returncode, transcript=b.stdout[-600:]))
        import shutil as _sh
        _sh.rmtree(d, ignore_errors=True)
    return dict(reproduced=any(o["exit"] != 0 for o in out), runs=out)


STATIC["c13_fake_abi_matches"] = dict(props=["C13", "C08"], fn=scan_fake_abi, obligation="C13.fake.abi", replay_static=replay_fake_abi)


# ------------------------------------------------------------------------------------------------
# type-level link between the recorded signature and the real function type (rustc must reject mis-declared uses)
import gen_typelink  # noqa: E402


def _typelink_files(repo, skip=()):
    return {"verif_typelink": dict(parent=INJ, dest="interface/injector/verif_typelink.rs", modline="mod verif_typelink;", text=gen_typelink.generate(), gate=False)}


GENERATORS["typelink"] = _typelink_files


def typelink_precheck(crate, env):
    res = dict(obligations={}, failures=[], undecided=[], skip=set())
    env = dict(env)
    base_td = os.path.join(os.path.dirname(crate), "td", "typelink")
    # the crate with no case enabled must compile, otherwise nothing can be concluded from a rejection
    env0 = dict(env, CARGO_TARGET_DIR=base_td)
    env0.pop("RUSTFLAGS", None)
    p0 = subprocess.run(["cargo", "check", "--offline", "--lib", "-q"], cwd=crate, env=env0, stdout=subprocess.PIPE, stderr=subprocess.STDOUT, text=True)
    if p0.returncode != 0:
        res["undecided"].append("the extracted crate does not compile even without any mis-declared use: " + p0.stdout[-300:])
        return res
    for name, desc, stmt in gen_typelink.CASES:
        e = dict(env0, RUSTFLAGS="--cfg tl_%s" % name)
        p = subprocess.run(["cargo", "check", "--offline", "--lib", "-q"], cwd=crate, env=e, stdout=subprocess.PIPE, stderr=subprocess.STDOUT, text=True)
        oid = "C09.typelink.%s" % name
        if p.returncode != 0 and "verif_typelink.rs" in p.stdout:
            res["obligations"][oid] = "SUCCESS"
        elif p.returncode != 0:
            res["undecided"].append("%s: rejected, but not at the mis-declared use: %s" % (oid, p.stdout[-200:]))
        else:
            res["obligations"][oid] = "FAILURE"
            res["failures"].append(dict(obligation=oid, desc="rustc ACCEPTS a mis-declared use (%s): `%s` — the signature this form records is no longer tied to the real type, so the text-based gates can be handed a wrong signature" % (desc, stmt), loc="src/interface/macros.rs", kind="obligation"))
    return res


PRECHECKS["typelink"] = typelink_precheck
H("typelink_anchor", module="verif_sigs.rs", props=["C09", "C10", "C14"], generator="typelink", precheck="typelink", fq="interface::injector::verif_sigs::c09_sig_unchecked", fns=MAC_FNS, covers=["COVER:end"],
  shared={("C09.typelink.%s" % n): ["C10", "C14"] for n, _d, _s in gen_typelink.CASES},
  bounded="nine mis-declared uses, one per type-carrying macro form; rustc is the checker")


# ------------------------------------------------------------------------------------------------
# C04 / C05: the process-wide guard must be released by drop glue (so that it is released on EVERY exit of the
# injector's drop, including a panicking restore). Kani has no unwinding, so this is a scan for constructs that
# take a value out of drop glue's hands, confirmed by a native replay (restore fault -> waiter must still get in).
def scan_lock_released_by_glue(repo):
    t = open(os.path.join(repo, "src", INJ)).read()
    code = "\n".join(l for l in t.split("\n") if not l.strip().startswith("//"))
    hits = sorted(set(re.findall(r"ManuallyDrop|mem::forget|Box::leak|MaybeUninit", code)))
    m = re.search(r"pub struct InjectorPP\s*\{(.*?)\n\}", code, re.S)
    if not m:
        return None, "struct InjectorPP not found"
    fields = m.group(1)
    lock_plain = re.search(r"_lock\s*:\s*MutexGuard<'static,\s*\(\)>", fields) is not None
    if hits or not lock_plain:
        return False, "the injector's lock guard is not a plain field released by drop glue (%s%s)" % (", ".join(hits), "" if lock_plain else "; _lock is not `MutexGuard<'static, ()>`")
    return True, "InjectorPP holds the guard as a plain `MutexGuard` field; no ManuallyDrop / mem::forget / Box::leak in injector.rs"


def _replay_c04(verif):
    """the lock is not the plain exclusive MutexGuard field the contracts speak about: two native replays decide —
    a restoration that panics must still release the guard; a second holder (any of the four combinations of
    preventer / injector) must not be admitted while the first guard is live (wave 10, seed C04-j: RwLock)"""
    a = _replay_bin("c04_restore_fault", [], verif)
    if a.get("reproduced"):
        return a
    b = _replay_bin("c04_two_holders", [], verif)
    if b.get("reproduced"):
        return b
    return dict(reproduced=False, restore_fault=a, two_holders=b)


STATIC["c04_lock_released_by_drop_glue"] = dict(props=["C04", "C05"], fn=scan_lock_released_by_glue, obligation="C04.lock.released-on-every-exit",
                                                replay_static=lambda verif: _replay_c04(verif))

# ------------------------------------------------------------------------------------------------
# Frame of the per-call contracts: every Kani harness starts from the initial value of every static, so a contract
# proved there covers all histories only if the functions under contract keep no process-wide state. The scan
# checks that frame assumption; when it fails, native history replays on the real code decide (violation when one
# fails; otherwise the state is recorded as an assumption and the depth-2 history harnesses stand).
def scan_backend_state(repo):
    hits = []
    d = os.path.join(repo, "src", "injector_core")
    for fn in sorted(os.listdir(d)):
        if not fn.endswith(".rs"):
            continue
        t = open(os.path.join(d, fn)).read()
        m = re.search(r"#\[cfg\(test\)\]\s*mod\s+\w+\s*\{", t)
        if m:
            t = t[:m.start()] + t[extract.match_brace(t, m.end() - 1) + 1:]
        code = "\n".join(l for l in t.split("\n") if not l.strip().startswith("//"))
        for mm in re.finditer(r"(?m)^\s*(?:pub(?:\([^)]*\))?\s+)?static\s+(?:mut\s+)?(\w+)\s*:", code):
            hits.append("%s: static %s" % (fn, mm.group(1)))
        for mm in re.finditer(r"\b(thread_local!|lazy_static!)", code):
            hits.append("%s: %s" % (fn, mm.group(1)))
    if hits:
        return False, "process-wide state in the patching core (%s): per-call contracts proved from the initial state do not by themselves cover every history" % "; ".join(hits)
    return True, "no static / thread_local item in src/injector_core: the functions under contract depend on their arguments and on memory only"


def _replay_histories(verif):
    import native_ext
    a = _replay_bin("c02_relife", [], verif)
    if a.get("reproduced"):
        return a
    b = native_ext.run(verif, os.environ.get("VERIF_WORK_SUFFIX", ""))
    if b.get("reproduced"):
        return b
    return dict(reproduced=False, x86_64=a, extracted_back_ends=b)


STATIC["backend_keeps_no_state"] = dict(props=["C02", "C01"], fn=scan_backend_state, obligation="C02.frame.no-hidden-state", replay_static=_replay_histories, soft=True)

# C14 ("all other async functions behave as before") composes C03 / C12 for sibling poll functions: the
# allocator's "only what it mapped is ever unmapped" obligations are therefore shared with C14 too
VERUS["alloc_linux_x86_64"]["props"] = sorted(set(VERUS["alloc_linux_x86_64"]["props"]) | {"C14"})
for _o in ("C11.alloc.unmap-own", "C11.alloc.unmap-len", "C11.alloc.inv.given-back", "C11.alloc.frame"):
    VERUS["alloc_linux_x86_64"]["shared"][_o] = sorted(set(VERUS["alloc_linux_x86_64"]["shared"].get(_o, [])) | {"C14"})
HARNESSES["c11_alloc_twin"]["props"] = sorted(set(HARNESSES["c11_alloc_twin"]["props"]) | {"C14"})
HARNESSES["c11_alloc_twin"]["shared"] = {"C11.twin.frame": ["C12", "C03", "C14"]}

# C05 ("an installation that cannot obtain memory is a panic with nothing left behind, never a hang"): the
# allocator's termination and clean-failure obligations decide C05 too
VERUS["alloc_linux_x86_64"]["props"] = sorted(set(VERUS["alloc_linux_x86_64"]["props"]) | {"C05"})
for _o in ("C11.alloc.terminates", "C11.alloc.clean-failure", "C11.alloc.inv.given-back"):
    VERUS["alloc_linux_x86_64"]["shared"][_o] = sorted(set(VERUS["alloc_linux_x86_64"]["shared"].get(_o, [])) | {"C05"})


# ------------------------------------------------------------------------------------------------
# Verus unit gate_unbounded: the interface functions between the user and the patching core, on their real text,
# for signature strings of ANY length, all pointers and all earlier histories of the injector (ghost request log).
import verus_gate  # noqa: E402
_GATE_FNS = [(INJ, n) for n in verus_gate.ORDER]
VERUS["gate_unbounded"] = dict(
    props=["C09", "C10", "C01", "C02", "C05", "C06", "C07", "C08", "C12", "C14"], builder=verus_gate.build, fns=_GATE_FNS, expect_verified=9, soft_frontend=True,
    shared={
        "C09.gate.unbounded.refuses-before-install": ["C05", "C10", "C14"],
        "C09.gate.unbounded.accepts-identical": ["C10", "C14"],
        "C09.gate.unbounded.accepts-only-identical": ["C14"],
        "C01.flavour.unbounded.request": ["C14", "C02"],
        "C01.flavour.unbounded.src": ["C14"],
        "C02.guard.kept.unbounded": ["C12", "C14"],
        "C02.guard.kept.unbounded.older": ["C12", "C14"],
        "C02.guard.kept.unbounded.newest": ["C12", "C14"],
        "C06.verifier.kept.unbounded": ["C08"],
        "C07.reset.unbounded": ["C06", "C08"],
    })


# C05 over histories (wave 9, seed C05-i): "afterwards any thread can create a new injector and use it normally" and
# "at most one panic" quantify over what happens AFTER a refusal; a per-call contract proved from the initial state of
# every static does not see a core that remembers the refusal (e.g. a std Mutex poisoned by the refusing panic —
# which Kani's panic=abort std cannot exhibit at all). Same frame assumption as C02.frame.no-hidden-state: checked
# by the scan; when the core keeps process-wide state, the native history replay (refusal while another fake is
# installed, then a fresh thread's injector) decides.
STATIC["backend_state_after_refusal"] = dict(props=["C05"], fn=scan_backend_state, obligation="C05.refusal.no-hidden-state",
                                             replay_static=lambda verif: _replay_bin("c05_refusal_relife", [], verif), soft=True)

# wave 9 (seed C12-i): a trampoline released while the injector lives (and then again at drop) is a C12 matter as
# much as a C02 one: "released exactly once when the injector goes away"
for _k in range(1, 8):
    HARNESSES["c02_order_k%d" % _k]["shared"] = dict(HARNESSES["c02_order_k%d" % _k].get("shared", {}), **{"C02.guard.kept": ["C12"], "C02.order.once": ["C12"]})

# wave 9 (seed C03-i): trampolines packed into shared pages by a core that keeps process-wide state; the packing
# error needs ~257 live installations. Same frame assumption, checked by the scan; when the core keeps state the
# long-history native replay (k booleans + 300 replacements in one injector, victim pages fencing the trampoline
# page) decides.
STATIC["backend_state_many_fakes"] = dict(props=["C03", "C12"], fn=scan_backend_state, obligation="C03.frame.no-hidden-state",
                                          replay_static=lambda verif: _replay_bin("c03_many_fakes", [], verif), soft=True)


# wave 9 (seed C17-i): the flush of a restoration may not be deferred past a point that can panic. The modular
# argument is: InjectorPP::drop restores each guard by dropping it (Verus unit drop_order_unbounded), and
# PatchGuard::drop writes, releases and flushes with nothing refusable in between (C17.drop / C17.drop.last on the
# lifecycles). When the drop of the injector no longer has that shape (the unit loses its anchor), the executions on
# which a later guard's restoration is refused are decided by a native replay: flush requests observed by
# interposing __clear_cache. (A Kani harness for the same obligation — two guards, second mprotect refused — did
# not finish within 600 s / 20 GB and is not registered.)
def scan_drop_shape(repo):
    try:
        verus_drop.build(repo)
    except extract.LostAnchor as e:
        return False, "the injector's drop is not the pop-and-drop loop (%s): whether every restored range is flushed before a later restoration can fail is not covered by PatchGuard::drop's contract" % e
    return True, "the injector's drop restores each guard by dropping it: PatchGuard::drop's own contract (write, release, flush, nothing refusable in between) covers executions that unwind out of a later guard's restoration"


STATIC["drop_flushes_before_next_restore"] = dict(props=["C17"], fn=scan_drop_shape, obligation="C17.unwind.flushed",
                                                  replay_static=lambda verif: _replay_bin("c17_unwind_flush", [], verif), soft=True)


# wave 10 (seed C16-j): a 32-bit ARM back end whose writes depend on what it READ at the entry (a "re-fake fast
# path" that rewrites only the literal). c16_again proves the contract after an arbitrary earlier installation for
# arbitrary entry content, but assumes the entry is not at 2 mod 4 and Kani cannot follow pointer arithmetic on the
# integer-cast entry address (undecided). The scan checks the frame assumption "the bytes read at the entry are only
# saved, never branched on"; when it fails, the native re-fake history on the T1-extracted back end (arena below
# 4 GiB, independent T32 / A32 decoder) decides.
def scan_arm_content_independent(repo):
    t = open(os.path.join(repo, "src", "injector_core", "patch_arm.rs")).read()
    code = "\n".join(l for l in t.split("\n") if not l.strip().startswith("//"))
    names = re.findall(r"let\s+(?:mut\s+)?(\w+)\s*=\s*(?:unsafe\s*\{\s*)?read_bytes\(", code)
    if not names:
        return None, "no `let x = read_bytes(..)` binding found in patch_arm.rs"
    dep = []
    for n in set(names):
        uses = len(re.findall(r"\b%s\b" % re.escape(n), code))
        binds = names.count(n)
        if uses > 2 * binds:
            dep.append("%s used %d times" % (n, uses))
    if dep:
        return False, "the 32-bit ARM back end looks at the bytes it read at the entry (%s): what it writes may depend on earlier installations" % "; ".join(dep)
    return True, "the bytes read at the entry are bound once and only handed to the guard: what is written depends on (target, fake) alone"


def _replay_arm_native(verif):
    import native_ext
    return native_ext.run(verif, os.environ.get("VERIF_WORK_SUFFIX", ""))


STATIC["arm_patch_content_independent"] = dict(props=["C16"], fn=scan_arm_content_independent, obligation="C16.loads-fake.history",
                                               replay_static=_replay_arm_native, soft=True)


# wave 10 (seed C14-j): a faked async function is `<F as Future>::poll` redirected by the same x86-64 installer as
# every other fake; "every await completes with the value" needs the installer's landing obligations for every
# placement of the replacement poll function relative to the original (the seed adds a no-trampoline fast path whose
# displacement wraps for replacements just inside -2 GiB). C14's own harnesses stub the installer (modular), so the
# installer's contract is part of C14: the two x86-64 lifecycles run under C14 too and their landing / restore
# obligations are shared with it.
for _h in ("lifecycle_near", "lifecycle_far"):
    HARNESSES[_h]["props"] = sorted(set(HARNESSES[_h]["props"]) | {"C14"})
    HARNESSES[_h]["shared"] = dict(HARNESSES[_h].get("shared", {}), **{
        "C01.install.entry": sorted(set(HARNESSES[_h].get("shared", {}).get("C01.install.entry", [])) | {"C14"}),
        "C01.install.tramp": sorted(set(HARNESSES[_h].get("shared", {}).get("C01.install.tramp", [])) | {"C14"}),
        "C02.restore": sorted(set(HARNESSES[_h].get("shared", {}).get("C02.restore", [])) | {"C14"}),
        "C03.frame.install": sorted(set(HARNESSES[_h].get("shared", {}).get("C03.frame.install", [])) | {"C14"}),
    })


# wave 10 (seed C02-j): the order obligations speak about ONE `Vec<PatchGuard>` in installation order popped by the
# drop loop. When the injector keeps its guards in another container (a map of per-function stacks) CBMC does not get
# through the container (undecided) and the Verus drop unit is out of shape; native histories over two targets whose
# patch windows overlap (both orders, with re-fakes) then decide.
def scan_guards_container(repo):
    t = open(os.path.join(repo, "src", INJ)).read()
    code = "\n".join(l for l in t.split("\n") if not l.strip().startswith("//"))
    m = re.search(r"pub struct InjectorPP\s*\{(.*?)\n\}", code, re.S)
    if not m:
        return None, "struct InjectorPP not found"
    if re.search(r"\bguards\s*:\s*Vec<\s*PatchGuard\s*>", m.group(1)):
        return True, "InjectorPP keeps its guards in one Vec<PatchGuard> (installation order)"
    return False, "InjectorPP does not keep its guards in one `Vec<PatchGuard>`: the order obligations (C02.order.*, drop_order_unbounded) do not apply to this container"


def _replay_c02_containers(verif):
    a = _replay_bin("c02_overlap", [], verif)
    if a.get("reproduced"):
        return a
    b = _replay_bin("c02_history", [0, 0], verif)
    if b.get("reproduced"):
        return b
    return dict(reproduced=False, overlap=a, same_function_twice=b)


STATIC["guards_in_installation_order"] = dict(props=["C02"], fn=scan_guards_container, obligation="C02.order.container",
                                              replay_static=_replay_c02_containers, soft=True)


# wave 11 (seed C08-k): "`times` is a call budget" is part of the common meaning every arm must obey (C08), not only of
# C06: the per-arm budget / counting obligations are shared with C08
for _n, _s in HARNESSES.items():
    if re.match(r"arm_\d+$", _n) and "C06" in _s["props"]:
        _k = _n.split("_")[1]
        _s["shared"] = dict(_s.get("shared", {}), **{"C06.arm%s.budget" % _k: sorted(set(_s.get("shared", {}).get("C06.arm%s.budget" % _k, [])) | {"C08"}),
                                                      "C06.arm%s.counts" % _k: sorted(set(_s.get("shared", {}).get("C06.arm%s.counts" % _k, [])) | {"C08"})})


# waves 9-11: what the frame-assumption scans and their native replays are (and are not), stated in every claim that uses one
_SCAN_NOTE = (" Frame assumptions of the contracts (%s) are checked syntactically on every run; when one does not hold on the tree under check, a native history replay on the real code "
              "decides (%s): a failing replay is reported as a VIOLATION with its transcript, a passing one leaves a NOTE and an entry under `assumptions` — these replays are tests of one history each, "
              "labelled as such, and are never counted as discharged obligations.")
for _p, _a, _r in (("C02", "the patching core keeps no process-wide state; the injector keeps ONE Vec<PatchGuard> in installation order", "c02_relife, extracted AArch64 / ARM back ends, c02_overlap, c02_history"),
                   ("C03", "the patching core keeps no process-wide state", "c03_many_fakes: k booleans + 300 replacements alive in one injector, victim pages fencing the trampoline page"),
                   ("C04", "the process-wide guard is a plain exclusive MutexGuard field released by drop glue", "c04_restore_fault, c04_two_holders"),
                   ("C05", "the patching core keeps no process-wide state that a refusal could leave behind", "c05_refusal_relife: refusal while another fake is installed, then a fresh thread's injector"),
                   ("C16", "the 32-bit ARM back end only saves the bytes it reads at the entry, it never branches on them", "verif_native_arm_refake on the T1-extracted back end"),
                   ("C17", "the injector's drop restores a guard only by dropping it (PatchGuard::drop flushes right after its write)", "c17_unwind_flush: flush requests observed by interposing __clear_cache")):
    PROPS[_p]["level_note"] = PROPS[_p]["level_note"] + _SCAN_NOTE % (_a, _r)


# wave 9 (seed C12-i): the order harnesses have no symbolic input, so Kani gives no counterexample to play back; the
# native replays of the same histories are tried in turn (same function faked twice: bytes; then: a page of ours
# moved in at an early-released trampoline address must survive the injector's drop)
def _replay_refake(verif):
    a = _replay_bin("c02_history", [0, 0], verif)
    if a.get("reproduced"):
        return a
    b = _replay_bin("c12_refake_foreign", [], verif)
    if b.get("reproduced"):
        return b
    return dict(reproduced=False, same_function_twice=a, foreign_page=b)


for _k in range(2, 8):
    HARNESSES["c02_order_k%d" % _k]["replay"] = lambda vals, verif: _replay_refake(verif)
