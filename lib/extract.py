"""Mechanical extraction of /repo/src into a scratch crate that Kani can verify (rules T1-T6 of
DESIGN.md section 2.1). Nothing here rewrites executable code: every edit is either the removal of
a target `#![cfg]` line (T1), an added `mod` line (T2), an added attribute line (T3), an added call
to an empty hook function immediately before an explicit `panic!` (T4), or a cfg-token rename in the
two A64 files for the macOS variant (T5)."""
import hashlib
import os
import re
import shutil

REPO = os.environ.get("VERIF_REPO", "/repo")
VERIF = os.path.dirname(os.path.dirname(os.path.abspath(__file__)))

T1_FILES = {
    "injector_core/utils.rs": '#![cfg(target_arch = "aarch64")]',
    "injector_core/arm64_codegenerator.rs": '#![cfg(target_arch = "aarch64")]',
    "injector_core/patch_arm64.rs": '#![cfg(target_arch = "aarch64")]',
    "injector_core/patch_arm.rs": '#![cfg(target_arch = "arm")]',
}

# proof module -> (file that gets the `mod` line, where the module file is copied)
T2_MODULES = {
    "verif_rt.rs": ("lib.rs", "verif_rt.rs", "pub mod verif_rt;"),
    "verif_common.rs": ("injector_core/common.rs", "injector_core/common/verif_common.rs", "pub(crate) mod verif_common;"),
    "verif_internal.rs": ("injector_core/internal.rs", "injector_core/internal/verif_internal.rs", "pub(crate) mod verif_internal;"),
    "verif_amd64.rs": ("injector_core/patch_amd64.rs", "injector_core/patch_amd64/verif_amd64.rs", "mod verif_amd64;"),
    "verif_arm64.rs": ("injector_core/patch_arm64.rs", "injector_core/patch_arm64/verif_arm64.rs", "mod verif_arm64;"),
    "verif_a64gen.rs": ("injector_core/arm64_codegenerator.rs", "injector_core/arm64_codegenerator/verif_a64gen.rs", "mod verif_a64gen;"),
    "verif_arm.rs": ("injector_core/patch_arm.rs", "injector_core/patch_arm/verif_arm.rs", "mod verif_arm;"),
    "verif_injector.rs": ("interface/injector.rs", "interface/injector/verif_injector.rs", "mod verif_injector;"),
    "verif_verifier.rs": ("interface/verifier.rs", "interface/verifier/verif_verifier.rs", "mod verif_verifier;"),
    "verif_macros.rs": ("interface/injector.rs", "interface/injector/verif_macros.rs", "mod verif_macros;"),
    "verif_sigs.rs": ("interface/injector.rs", "interface/injector/verif_sigs.rs", "mod verif_sigs;"),
    "verif_async.rs": ("interface/injector.rs", "interface/injector/verif_async.rs", "mod verif_async;"),
}

PANIC_KINDS = [
    # (kind id, constant name, substring of the panic message)
    (1, "K_SIG_MISMATCH", "Signature mismatch: expected"),
    (2, "K_NOT_BOOL", "will_return_boolean requires"),
    (3, "K_MPROTECT", "mprotect failed"),
    (4, "K_NOMEM", "Failed to allocate JIT memory"),
    (5, "K_RANGE", "JIT memory is out of branch range"),
    (6, "K_OVER", "called more times than expected"),
    (7, "K_ARGS", "called with unexpected arguments"),
    (8, "K_VERDICT", "was expected to be called"),
    (9, "K_NOMEM_OTHER", "Failed to allocate executable memory"),
]


class LostAnchor(Exception):
    pass


def sha(text):
    return hashlib.sha256(text.encode()).hexdigest()[:16]


def match_brace(s, open_idx):
    """index just past the brace/paren matching s[open_idx]; skips string/char literals and comments"""
    pairs = {"{": "}", "(": ")", "[": "]"}
    op = s[open_idx]
    cl = pairs[op]
    depth = 0
    i = open_idx
    n = len(s)
    while i < n:
        c = s[i]
        if s.startswith("//", i):
            j = s.find("\n", i)
            i = n if j < 0 else j
            continue
        if s.startswith("/*", i):
            j = s.find("*/", i)
            i = n if j < 0 else j + 2
            continue
        if c == '"':
            i += 1
            while i < n and s[i] != '"':
                if s[i] == "\\":
                    i += 1
                i += 1
            i += 1
            continue
        if c == "'":
            # char literal or lifetime
            m = re.match(r"'(\\.|[^\\'])'", s[i:])
            if m:
                i += m.end()
                continue
            i += 1
            continue
        if c == op:
            depth += 1
        elif c == cl:
            depth -= 1
            if depth == 0:
                return i + 1
        i += 1
    raise LostAnchor("unbalanced delimiter")


def fn_span(src, name, nth=0, cfg_hint=None):
    """(start, end) of the nth item `fn <name>` in src: from the start of its line to the closing
    brace of its body. cfg_hint: a substring that must occur in the 3 lines above (to pick among
    cfg-variants of the same name)."""
    hits = []
    for m in re.finditer(r"^[ \t]*(?:pub(?:\([a-z]+\))?\s+)?(?:const\s+)?(?:unsafe\s+)?(?:extern\s+\"[^\"]*\"\s+)?fn\s+%s\b" % re.escape(name), src, re.M):
        if cfg_hint is not None:
            above = "\n".join(src[: m.start()].split("\n")[-6:])
            if cfg_hint not in above:
                continue
        hits.append(m)
    if len(hits) <= nth:
        raise LostAnchor("function `%s` (occurrence %d) not found" % (name, nth))
    m = hits[nth]
    # body = first `{` at bracket depth 0 after the name (array types like `[bool; 2]` contain `;`)
    depth, i, brace = 0, m.end(), -1
    while i < len(src):
        c = src[i]
        if c in "([<" and not (c == "<" and src[i - 1] == "-"):
            depth += 1 if c != "<" else 0
        elif c in ")]":
            depth -= 1
        elif c == ";" and depth == 0:
            break
        elif c == "{" and depth == 0:
            brace = i
            break
        i += 1
    if brace < 0:
        raise LostAnchor("function `%s` has no body" % name)
    # the first `{` after the signature could belong to a where clause type; fine for this crate
    end = match_brace(src, brace)
    return m.start(), end


def fn_text(src, name, nth=0, cfg_hint=None):
    a, b = fn_span(src, name, nth, cfg_hint)
    return src[a:b]


# classification of explicit panic sites, independent of the message text: by the function that contains
# the site (and, inside macro bodies, by the guard it sits under). The message is only a fallback.
PANIC_BY_FN = {
    ("interface/injector.rs", "will_execute_raw"): 1,
    ("interface/injector.rs", "will_return_async"): 1,
    ("interface/injector.rs", "will_execute"): 1,
    ("interface/injector.rs", "will_return_boolean"): 2,
    ("injector_core/common.rs", "make_memory_writable_and_executable_linux"): 3,
    ("injector_core/common.rs", "allocate_jit_memory_unix"): 4,
    ("injector_core/patch_arm64.rs", "apply_branch_patch"): 5,
    ("interface/verifier.rs", "drop"): 8,
    ("interface/func_ptr.rs", "new"): 10,
}


def panic_kind(msg):
    for k, _n, sub in PANIC_KINDS:
        if sub in msg:
            return k
    return 0


def enclosing_fn(lines, i):
    for j in range(i, -1, -1):
        m = re.match(r"\s*(?:pub(?:\([a-z]+\))?\s+)?(?:const\s+)?(?:unsafe\s+)?(?:extern\s+\"[^\"]*\"\s+)?fn\s+(\w+)", lines[j])
        if m:
            return m.group(1)
    return None


def expand_asserts(text, relpath, log):
    """T4b: a statement-position `assert!(cond, fmt..)` in library code is replaced by its definition
    `if !(cond) { panic!(fmt..) }` (single evaluation of cond, same message), so that T4 can hook it like any
    other explicit panic. `debug_assert!` and `assert_eq!` are left alone (implicit, reported as undecided)."""
    out = ""
    i = 0
    for m in re.finditer(r"(?m)^([ \t]*)assert!\(", text):
        if m.start() < i:
            continue
        try:
            end = match_brace(text, m.end() - 1)
        except LostAnchor:
            continue
        inner = text[m.end():end - 1]
        depth, cut = 0, -1
        j = 0
        while j < len(inner):
            c = inner[j]
            if c == '"':
                j += 1
                while j < len(inner) and inner[j] != '"':
                    if inner[j] == "\\":
                        j += 1
                    j += 1
            elif c in "([{":
                depth += 1
            elif c in ")]}":
                depth -= 1
            elif c == "," and depth == 0:
                cut = j
                break
            j += 1
        cond = inner if cut < 0 else inner[:cut]
        rest = '"assertion failed"' if cut < 0 else inner[cut + 1:].strip()
        tail = end
        if text[tail:tail + 1] == ";":
            tail += 1
        ind = m.group(1)
        out += text[i:m.start()] + "%sif !(%s) {\n%s    panic!(%s);\n%s}" % (ind, cond.strip(), ind, rest, ind)
        i = tail
        log.append({"rule": "T4b", "file": relpath, "line": text.count("\n", 0, m.start()) + 1})
    return out + text[i:]


def insert_panic_hooks(text, relpath, log):
    """T4: `crate::verif_rt::on_panic(kind, line);` immediately before every statement-position
    `panic!(`. The panic itself stays. kind 0 = unclassified (reported as undecided if reached)."""
    out = []
    lines = text.split("\n")
    for i, line in enumerate(lines):
        st = line.lstrip()
        if st.startswith("panic!("):
            fn = enclosing_fn(lines, i)
            kind = PANIC_BY_FN.get((relpath, fn), 0)
            if relpath == "injector_core/common.rs" and fn == "allocate_jit_memory_unix":
                # the generic-architecture arm of the allocator comes second in the function
                prev = [l for l in lines[max(0, i - 40):i] if "panic!(" in l and enclosing_fn(lines, i) == fn]
                kind = 4 if not any(enclosing_fn(lines, k) == fn and "panic!(" in lines[k] for k in range(max(0, i - 60), i)) else 9
            if kind == 0 and relpath == "interface/macros.rs":
                # inside fake!: the over-call panic sits under the budget test, the argument panic under `else`
                prevs = [l.strip() for l in lines[max(0, i - 2):i] if l.strip()]
                p1 = prevs[-1] if prevs else ""
                if re.search(r"prev\s*>=|>=\s*\$expected|is_err\(\)|!\(prev\s*<|prev\s*<\s*\$expected", p1):
                    kind = 6
                elif p1.startswith("} else") or p1 == "else {":
                    kind = 7
            if kind == 0:
                # structural fallback: what the surrounding code is doing (independent of names and messages)
                ctx = "\n".join(lines[max(0, i - 14):i])
                if relpath == "injector_core/common.rs" and "mprotect(" in ctx:
                    kind = 3
                elif relpath == "injector_core/common.rs" and ("mmap" in ctx or "start_address" in ctx) and "VirtualAlloc" not in ctx:
                    kind = 4
                elif relpath == "injector_core/patch_arm64.rs" and ("offset" in ctx or "RANGE" in ctx):
                    kind = 5
                elif relpath == "interface/verifier.rs":
                    kind = 8
                elif relpath == "interface/injector.rs" and "signature" in ctx:
                    kind = 2 if "bool" in ctx else 1
            if kind == 0:
                msg = st
                if '"' not in msg and i + 1 < len(lines):
                    msg += lines[i + 1]
                kind = panic_kind(msg)
            indent = line[: len(line) - len(st)]
            out.append("%scrate::verif_rt::on_panic(%d, %d);" % (indent, kind, i + 1))
            log.append({"rule": "T4", "file": relpath, "line": i + 1, "kind": kind, "fn": fn})
        out.append(line)
    text2 = "\n".join(out)
    # expression-position panics (`_ => panic!(..)`, `unwrap_or_else(|| panic!(..))`, ...): wrap the macro call
    # into a block that calls the hook first: `{ on_panic(k, line); panic!(..) }` has type `!` like the call itself
    pieces = []
    pos = len(text2)
    for m in reversed(list(re.finditer(r"panic!\(", text2))):
        ls = text2.rfind("\n", 0, m.start()) + 1
        before = text2[ls:m.start()]
        if before.strip() == "" or before.lstrip().startswith("//") or "on_panic(" in before:
            continue  # statement position (already hooked) or a comment
        if m.start() >= 2 and text2[m.start() - 2:m.start()] == "::":
            continue
        try:
            end = match_brace(text2, m.end() - 1)
        except LostAnchor:
            continue
        lineno = text2.count("\n", 0, m.start()) + 1
        ctx_lines = text2[:m.start()].split("\n")
        fn = enclosing_fn(ctx_lines, len(ctx_lines) - 1)
        kind = PANIC_BY_FN.get((relpath, fn), 0)
        if kind == 0:
            ctx = "\n".join(ctx_lines[-15:])
            if relpath == "injector_core/common.rs" and "mprotect(" in ctx:
                kind = 3
            elif relpath == "injector_core/patch_arm64.rs" and ("offset" in ctx or "RANGE" in ctx):
                kind = 5
            elif relpath == "interface/verifier.rs":
                kind = 8
            elif relpath == "interface/injector.rs" and "signature" in ctx:
                kind = 2 if "bool" in ctx else 1
            else:
                kind = panic_kind(text2[m.start():end])
        text2 = text2[:m.start()] + "{ crate::verif_rt::on_panic(%d, %d); " % (kind, lineno) + text2[m.start():end] + " }" + text2[end:]
        log.append({"rule": "T4", "file": relpath, "line": lineno, "kind": kind, "fn": fn, "position": "expression"})
    return text2


def extract(work, modules, macos=False, big_arena=False, contracts=None, extra_files=None, extra_cfgs=None, arch=None):
    """Build work/crate from REPO/src. modules: list of proof-module file names (contracts/kani/*).
    contracts: list of dicts {file, fn, nth, cfg_hint, lines:[...]} for T3.
    extra_files: {relative path under src: text} generated proof modules (e.g. the fake! arm harnesses);
    they are registered like T2 modules via a (parent file, mod line) tuple value: {name: (parent, relpath, modline, text)}
    Returns the edit log."""
    crate = os.path.join(work, "crate")
    if os.path.exists(crate):
        shutil.rmtree(crate)
    shutil.copytree(os.path.join(REPO, "src"), os.path.join(crate, "src"))
    log = []
    src = os.path.join(crate, "src")

    def rd(rel):
        with open(os.path.join(src, rel)) as f:
            return f.read()

    def wr(rel, text):
        p = os.path.join(src, rel)
        os.makedirs(os.path.dirname(p), exist_ok=True)
        with open(p, "w") as f:
            f.write(text)

    # T1
    for rel, line in T1_FILES.items():
        t = rd(rel)
        if line not in t:
            raise LostAnchor("T1: cfg line missing in " + rel)
        wr(rel, t.replace(line, "// [T1] " + line[3:], 1))
        log.append({"rule": "T1", "file": rel, "deleted": line})

    # T5
    if macos:
        for rel in ("injector_core/patch_arm64.rs", "injector_core/arm64_codegenerator.rs"):
            t = rd(rel)
            n = t.count('target_os = "macos"')
            wr(rel, t.replace('target_os = "macos"', "verif_macos"))
            log.append({"rule": "T5", "file": rel, "tokens_renamed": n})

    # T8: the architecture dispatch of internal.rs is compiled with the arm of another architecture selected
    # (the `target_arch = "<a>"` tokens of that one file become cfg flags; exactly one flag is set)
    if arch:
        rel = "injector_core/internal.rs"
        t = rd(rel)
        n = 0
        for a in ("aarch64", "x86_64", "arm"):
            tok = 'target_arch = "%s"' % a
            n += t.count(tok)
            t = t.replace(tok, "verif_arch_%s" % a)
        if n == 0:
            raise LostAnchor("T8: no target_arch token in " + rel)
        wr(rel, t)
        log.append({"rule": "T8", "file": rel, "tokens_renamed": n, "selected": arch})

    # T9: run-time CPU feature tests (`is_x86_feature_detected!("..")`, `is_aarch64_feature_detected!`) execute cpuid,
    # which Kani cannot follow; the properties must hold on every CPU, so each test becomes a nondeterministic
    # boolean (verif_rt::any_cpu_feature). Nothing to do on a tree without such tests.
    cpu_re = re.compile(r"(?:(?:std|core)::)?(?:arch::)?is_(?:x86|aarch64|arm)_feature_detected!\s*\(\s*\"[^\"]*\"\s*\)")
    for root, _dirs, files in os.walk(src):
        for fn_ in files:
            if not fn_.endswith(".rs"):
                continue
            rel = os.path.relpath(os.path.join(root, fn_), src)
            t = rd(rel)
            t2, n = cpu_re.subn("crate::verif_rt::any_cpu_feature()", t)
            if n:
                wr(rel, t2)
                log.append({"rule": "T9", "file": rel, "cpu_feature_tests_made_nondeterministic": n})

    # T3 (before T4 so that anchors are found in pristine text)
    for c in contracts or []:
        t = rd(c["file"])
        a, _b = fn_span(t, c["fn"], c.get("nth", 0), c.get("cfg_hint"))
        ins = "".join("#[cfg_attr(kani, %s)]\n" % l for l in c["lines"])
        wr(c["file"], t[:a] + ins + t[a:])
        log.append({"rule": "T3", "file": c["file"], "fn": c["fn"], "attributes": len(c["lines"])})

    # T4
    for root, _d, files in os.walk(src):
        for fn in files:
            if not fn.endswith(".rs"):
                continue
            rel = os.path.relpath(os.path.join(root, fn), src)
            t = rd(rel)
            if rel.startswith("verif_"):
                continue
            if re.search(r"(?m)^[ \t]*assert!\(", t):
                t = expand_asserts(t, rel, log)
            if "panic!(" in t:
                wr(rel, insert_panic_hooks(t, rel, log))

    # T7: ghost count of guard constructions (add-only: one call at the start of PatchGuard::new)
    t = rd("injector_core/common.rs")
    m = re.search(r"impl\s+PatchGuard\s*\{", t)
    if m:
        a, b = fn_span(t[m.end():], "new")
        seg = t[m.end() + a:m.end() + b]
        brace = seg.index("{", seg.index(")"))
        # the body brace is the first `{` after the parameter list and return type
        k = seg.index("{", seg.rindex("->")) if "->" in seg[:seg.index("{", brace)] else brace
        seg = seg[:k + 1] + "\n        crate::verif_rt::on_guard_new();" + seg[k + 1:]
        wr("injector_core/common.rs", t[:m.end() + a] + seg + t[m.end() + b:])
        log.append({"rule": "T7", "file": "injector_core/common.rs", "fn": "PatchGuard::new", "added": "ghost counter call"})

    # T2
    todo = []
    for m in ["verif_rt.rs"] + [x for x in modules if x != "verif_rt.rs"]:
        parent, dest, modline = T2_MODULES[m]
        with open(os.path.join(VERIF, "contracts", "kani", m)) as f:
            todo.append((parent, dest, modline, f.read()))
    ungated = {"verif_rt.rs"}
    for name, ef in (extra_files or {}).items():
        todo.append((ef["parent"], ef["dest"], ef["modline"], ef["text"]))
        if not ef.get("gate", True):
            ungated.add(ef["dest"])
    for parent, dest, modline, text in todo:
        wr(dest, text)
        t = rd(parent)
        gate = "" if dest in ungated else "#[cfg(kani)]\n"
        wr(parent, t.rstrip("\n") + "\n" + gate + modline + "\n")
        log.append({"rule": "T2", "file": parent, "added": modline, "module_file": dest})

    # T6: the OS model is compiled as a module of the extracted crate, which names itself `libc`
    shutil.copy(os.path.join(VERIF, "shim", "verif_os.rs"), os.path.join(src, "verif_os.rs"))
    t = rd("lib.rs")
    wr("lib.rs", t.rstrip("\n") + "\nextern crate self as libc;\nmod verif_os;\npub use verif_os::*;\n")
    cfgs = []
    if macos:
        cfgs.append("verif_macos")
    if big_arena:
        cfgs.append("verif_big_arena")
    cfgs += list(extra_cfgs or [])
    if arch:
        cfgs.append("verif_arch_%s" % arch)
    with open(os.path.join(crate, "Cargo.toml"), "w") as f:
        f.write(
            '[package]\nname = "injectorpp"\nversion = "0.4.0"\nedition = "2021"\n\n'
            "[dependencies]\n\n"
            "[lints.rust]\nunexpected_cfgs = \"allow\"\ndead_code = \"allow\"\nunused = \"allow\"\n\n[workspace]\n"
        )
    os.makedirs(os.path.join(crate, ".cargo"), exist_ok=True)
    with open(os.path.join(crate, ".cargo", "config.toml"), "w") as f:
        f.write("[net]\noffline = true\n")
    log.append({"rule": "T6", "file": "Cargo.toml", "libc": "shim"})
    return log, cfgs


def body_hashes(specs):
    """specs: list of (relpath under REPO/src, fn name, nth, cfg_hint). Returns {label: sha}."""
    out = {}
    for rel, name, nth, hint in specs:
        with open(os.path.join(REPO, "src", rel)) as f:
            t = f.read()
        out["%s::%s%s" % (rel, name, "" if not nth else "#%d" % nth)] = sha(fn_text(t, name, nth, hint))
    return out
