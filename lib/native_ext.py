"""Native confirmation runs on the T1-extracted back ends (AArch64 / 32-bit ARM compiled for the host with the
real common.rs and the real libc). These are replays, not proofs: they turn a flag raised by a syntactic
scan (or an obligation the verifier could not decide) into a concrete failing history on the real code."""
import os
import shutil
import subprocess
import sys

sys.path.insert(0, os.path.dirname(os.path.abspath(__file__)))
import extract  # noqa: E402

SPLICE = {
    "verif_native_a64.rs": ("injector_core/patch_arm64.rs", "injector_core/patch_arm64/verif_native_a64.rs", "#[cfg(test)]\nmod verif_native_a64;"),
    "verif_native_arm.rs": ("injector_core/patch_arm.rs", "injector_core/patch_arm/verif_native_arm.rs", "#[cfg(test)]\nmod verif_native_arm;"),
}


def run(verif, suffix=""):
    work = os.path.join(verif, "work", "native-ext" + suffix)
    crate = os.path.join(work, "crate")
    if os.path.exists(crate):
        shutil.rmtree(crate)
    os.makedirs(work, exist_ok=True)
    shutil.copytree(os.path.join(extract.REPO, "src"), os.path.join(crate, "src"))
    src = os.path.join(crate, "src")
    for rel, line in extract.T1_FILES.items():
        p = os.path.join(src, rel)
        t = open(p).read()
        if line not in t:
            return dict(reproduced=False, error="T1 anchor lost in " + rel)
        open(p, "w").write(t.replace(line, "// [T1] " + line[3:], 1))
    for name, (parent, dest, modline) in SPLICE.items():
        os.makedirs(os.path.dirname(os.path.join(src, dest)), exist_ok=True)
        shutil.copy(os.path.join(verif, "contracts", "native", name), os.path.join(src, dest))
        with open(os.path.join(src, parent), "a") as f:
            f.write("\n" + modline + "\n")
    with open(os.path.join(crate, "Cargo.toml"), "w") as f:
        f.write('[package]\nname = "injectorpp"\nversion = "0.4.0"\nedition = "2021"\n\n[dependencies]\nlibc = "0.2"\n\n'
                '[lints.rust]\nunexpected_cfgs = "allow"\ndead_code = "allow"\nunused = "allow"\n\n[workspace]\n')
    env = dict(os.environ, CARGO_NET_OFFLINE="true", CARGO_TARGET_DIR=os.path.join(verif, "work", "native-ext-target"))
    p = subprocess.run(["cargo", "test", "--offline", "--lib", "verif_native", "--", "--test-threads=1"], cwd=crate, env=env, stdout=subprocess.PIPE, stderr=subprocess.STDOUT, text=True, timeout=900)
    out = p.stdout
    shutil.rmtree(crate, ignore_errors=True)
    if "test result:" not in out:
        return dict(reproduced=False, error="native extraction does not build or run", transcript=out[-1500:])
    failed = [l for l in out.split("\n") if l.startswith("test ") and "FAILED" in l]
    return dict(reproduced=p.returncode != 0 and bool(failed), cmd="cargo test --lib verif_native (T1-extracted back ends on the host)", exit=p.returncode, failed=failed, transcript=out[-1500:])


if __name__ == "__main__":
    import json
    print(json.dumps(run(os.path.dirname(os.path.dirname(os.path.abspath(__file__)))), indent=1))
