//! C01.page.cover replay: a synthetic function whose first bytes straddle a page
//! boundary (entry `back` bytes before the page end), both pages r-x. Install a fake
//! through the public API, call, drop, call again.
//! usage: c01_page_span <back>     exit 0 = property held; crash/non-zero = violated
use injectorpp::interface::injector::*;
use replay::*;

extern "C" fn fake_fn() -> u32 {
    4242
}

fn main() {
    let back: usize = std::env::args().nth(1).map(|s| s.parse().unwrap()).unwrap_or(3);
    unsafe {
        let base = map_rwx(0, 2);
        let entry = base.add(PAGE - back);
        emit_ret_const(entry, 7);
        protect_rx(base, 2);
        assert_eq!(call_u32(entry), 7);
        let before = bytes(entry, 16);
        {
            let mut inj = InjectorPP::new();
            inj.when_called_unchecked(FuncPtr::new(entry as *const (), ""))
                .will_execute_raw_unchecked(FuncPtr::new(fake_fn as *const (), ""));
            let got = call_u32(entry);
            println!("faked call -> {got}");
            if got != 4242 {
                std::process::exit(3);
            }
        }
        let after = bytes(entry, 16);
        println!("before {}\nafter  {}", hex(&before), hex(&after));
        if before != after || call_u32(entry) != 7 {
            std::process::exit(4);
        }
    }
    println!("ok");
}
