//! C02.order replay: run an install history given as a list of target indices (0..3) over
//! three synthetic functions packed at 16-byte pitch, then drop the injector and compare every
//! byte of the arena with its initial content and call each function.
//! usage: c02_history 0 0        (fake function 0 twice)
use injectorpp::interface::injector::*;
use replay::*;

extern "C" fn fake_a() -> u32 {
    1001
}
extern "C" fn fake_b() -> u32 {
    1002
}

fn main() {
    let hist: Vec<usize> = std::env::args().skip(1).map(|s| s.parse().unwrap()).collect();
    unsafe {
        let base = map_rwx(0, 1);
        for i in 0..3 {
            emit_ret_const(base.add(64 + 16 * i), 10 + i as u32);
        }
        protect_rx(base, 1);
        let before = bytes(base, PAGE);
        {
            let mut inj = InjectorPP::new();
            for (k, &t) in hist.iter().enumerate() {
                let f = if k % 2 == 0 { fake_a as *const () } else { fake_b as *const () };
                inj.when_called_unchecked(FuncPtr::new(base.add(64 + 16 * t) as *const (), ""))
                    .will_execute_raw_unchecked(FuncPtr::new(f, ""));
                let want = if k % 2 == 0 { 1001 } else { 1002 };
                let got = call_u32(base.add(64 + 16 * t));
                if got != want {
                    println!("latest installation not in effect: got {got} want {want}");
                    std::process::exit(3);
                }
            }
        }
        let after = bytes(base, PAGE);
        if before != after {
            for i in 0..PAGE {
                if before[i] != after[i] {
                    println!("byte {i}: before {:02x} after {:02x}", before[i], after[i]);
                }
            }
            std::process::exit(4);
        }
        for i in 0..3 {
            assert_eq!(call_u32(base.add(64 + 16 * i)), 10 + i as u32);
        }
    }
    println!("ok");
}
