//! C02 replay for an injector that does not keep ONE list of guards in installation order (wave 10, seed C02-j:
//! a map from target address to a per-function stack). Histories over two targets whose patch windows overlap
//! (entries 3 bytes apart, as in hand-written or generated code), in both installation orders, with and without a
//! re-fake in between: after the injector is gone the page must be byte-for-byte what it was. Restoring in any
//! order other than newest-first writes back bytes that were saved while the neighbour's patch was in place.
//! exit 0 = held; 4 = bytes not restored
use injectorpp::interface::injector::*;
use replay::*;

extern "C" fn fake_a() -> u32 {
    1001
}

unsafe fn history(base: *mut u8, order: &[usize], what: &str) {
    let before = bytes(base, PAGE);
    {
        let mut inj = InjectorPP::new();
        for off in order {
            inj.when_called_unchecked(FuncPtr::new(base.add(*off) as *const (), "")).will_execute_raw_unchecked(FuncPtr::new(fake_a as *const (), ""));
        }
    }
    let after = bytes(base, PAGE);
    if before != after {
        for i in 0..PAGE {
            if before[i] != after[i] {
                println!("{what}: byte {i}: before {:02x} after {:02x}", before[i], after[i]);
            }
        }
        std::process::exit(4);
    }
}

fn main() {
    unsafe {
        let base = map_rwx(0, 1);
        // f at 64: `xor eax,eax; ret` (3 bytes); g at 67: `mov eax, 7; ret`; then padding
        let code: [u8; 16] = [0x31, 0xC0, 0xC3, 0xB8, 7, 0, 0, 0, 0xC3, 0xCC, 0xCC, 0xCC, 0xCC, 0xCC, 0xCC, 0xCC];
        std::ptr::copy_nonoverlapping(code.as_ptr(), base.add(64), 16);
        for i in 80..112 {
            *base.add(i) = 0x90;
        }
        protect_rx(base, 1);
        history(base, &[64, 67], "lower entry first");
        history(base, &[67, 64], "higher entry first");
        history(base, &[64, 67, 64], "lower, higher, lower again");
        history(base, &[67, 64, 67, 64], "alternating");
        println!("ok");
    }
}
