//! C02 / C01 replay over histories the per-call contracts do not see when a back end keeps
//! process-wide state: (1) two injector lifetimes with the code behind the entry address replaced in
//! between; (2) a patch that fits in one page followed by a function whose entry straddles that page
//! and the next (in a forked child: a fault is a violation, not a crash of the checker).
//! exit 0 = held; 4 = bytes not restored; 3 = fake not reached; 5 = child killed by a signal
use injectorpp::interface::injector::*;
use replay::*;

extern "C" fn fake_a() -> u32 {
    1001
}
extern "C" fn fake_b() -> u32 {
    1002
}

unsafe fn life(entry: *mut u8, base: *mut u8, fake: *const (), want: u32, what: &str) {
    let before = bytes(base, PAGE);
    {
        let mut inj = InjectorPP::new();
        inj.when_called_unchecked(FuncPtr::new(entry as *const (), ""))
            .will_execute_raw_unchecked(FuncPtr::new(fake, ""));
        let got = call_u32(entry);
        if got != want {
            println!("{what}: fake not reached: got {got} want {want}");
            std::process::exit(3);
        }
    }
    let after = bytes(base, PAGE);
    if before != after {
        for i in 0..PAGE {
            if before[i] != after[i] {
                println!("{what}: byte {i}: before {:02x} after {:02x}", before[i], after[i]);
            }
        }
        std::process::exit(4);
    }
}

fn main() {
    unsafe {
        // (1)
        let base = map_rwx(0, 1);
        let entry = base.add(64);
        emit_ret_const(entry, 11);
        protect_rx(base, 1);
        life(entry, base, fake_a as *const (), 1001, "lifetime 1");
        assert_eq!(libc::mprotect(base as *mut libc::c_void, PAGE, libc::PROT_READ | libc::PROT_WRITE | libc::PROT_EXEC), 0);
        emit_ret_const(entry, 0x5566_7788);
        protect_rx(base, 1);
        life(entry, base, fake_b as *const (), 1002, "lifetime 2 (other code at the same address)");
        if call_u32(entry) != 0x5566_7788 {
            println!("lifetime 2: the function no longer does what it did");
            std::process::exit(4);
        }
        // (2)
        for back in 1..=4usize {
            let pid = libc::fork();
            if pid == 0 {
                let b2 = map_rwx(0, 2);
                let near = b2.add(64);
                let straddle = b2.add(PAGE - back);
                emit_ret_const(near, 21);
                emit_ret_const(straddle, 22);
                protect_rx(b2, 2);
                {
                    let mut inj = InjectorPP::new();
                    inj.when_called_unchecked(FuncPtr::new(near as *const (), "")).will_execute_raw_unchecked(FuncPtr::new(fake_a as *const (), ""));
                    inj.when_called_unchecked(FuncPtr::new(straddle as *const (), "")).will_execute_raw_unchecked(FuncPtr::new(fake_b as *const (), ""));
                    if call_u32(near) != 1001 || call_u32(straddle) != 1002 {
                        libc::_exit(3);
                    }
                }
                if call_u32(near) != 21 || call_u32(straddle) != 22 {
                    libc::_exit(4);
                }
                libc::_exit(0);
            }
            let mut st = 0;
            libc::waitpid(pid, &mut st, 0);
            if libc::WIFSIGNALED(st) {
                println!("same-page patch then entry {back} bytes before the page end: child killed by signal {}", libc::WTERMSIG(st));
                std::process::exit(5);
            }
            if libc::WEXITSTATUS(st) != 0 {
                println!("same-page patch then entry {back} bytes before the page end: exit {}", libc::WEXITSTATUS(st));
                std::process::exit(libc::WEXITSTATUS(st));
            }
        }
    }
    println!("ok");
}
