//! C03 / C12 replay over a long history, for a patching core that keeps process-wide state (e.g. trampolines
//! packed into shared pages): `k` forced booleans followed by 300 replacements (fakes more than 2 GiB away, so
//! the 12-byte absolute trampoline form) alive in ONE injector, with victim pages of executable memory placed
//! directly before and after the page the first trampoline went to. While the fakes are installed and after
//! the injector is gone, no byte of the victim pages may have changed, every fake must be reached, and every
//! function must be back. Each k runs in a forked child: a fault is a violation, not a crash of the checker.
//! exit 0 = held; 3 = fake not reached; 4 = foreign executable memory modified / code not restored; 5 = child
//! killed by a signal
use injectorpp::interface::injector::*;
use replay::*;

extern "C" fn fake_a() -> u32 {
    1001
}

const N: usize = 300;

/// start addresses of the rwx private mappings of this process
fn rwx_pages() -> Vec<(usize, usize)> {
    let maps = std::fs::read_to_string("/proc/self/maps").unwrap();
    let mut v = Vec::new();
    for l in maps.lines() {
        let mut it = l.split_whitespace();
        let (range, perms) = (it.next().unwrap(), it.next().unwrap());
        if perms.starts_with("rwx") {
            let (a, b) = range.split_once('-').unwrap();
            v.push((usize::from_str_radix(a, 16).unwrap(), usize::from_str_radix(b, 16).unwrap()));
        }
    }
    v
}

unsafe fn victim(at: usize) -> Option<*mut u8> {
    let p = libc::mmap(at as *mut libc::c_void, PAGE, libc::PROT_READ | libc::PROT_WRITE | libc::PROT_EXEC, libc::MAP_PRIVATE | libc::MAP_ANONYMOUS | libc::MAP_FIXED_NOREPLACE, -1, 0);
    if p == libc::MAP_FAILED {
        return None;
    }
    std::ptr::write_bytes(p as *mut u8, 0xCC, PAGE);
    Some(p as *mut u8)
}

unsafe fn scenario(k: usize) -> i32 {
    let pages = (N * 16 + PAGE - 1) / PAGE;
    let base = map_rwx(0, pages);
    for i in 0..N {
        emit_ret_const(base.add(16 * i), 7000 + i as u32);
    }
    protect_rx(base, pages);
    let before = bytes(base, pages * PAGE);
    let rwx0 = rwx_pages();
    let mut victims: Vec<*mut u8> = Vec::new();
    {
        let mut inj = InjectorPP::new();
        for i in 0..N {
            // highest address first: a core that places trampolines relative to the first function it sees then
            // finds every later (lower) function at least as close to them
            let f = base.add(16 * (N - 1 - i));
            if i < k {
                inj.when_called(FuncPtr::new(f as *const (), "fn() -> bool")).will_return_boolean(true);
            } else {
                inj.when_called_unchecked(FuncPtr::new(f as *const (), "")).will_execute_raw_unchecked(FuncPtr::new(fake_a as *const (), ""));
            }
            if i == 0 {
                // where did the first trampoline go? fence that page in with victim pages
                for (a, b) in rwx_pages() {
                    if !rwx0.contains(&(a, b)) && !rwx0.iter().any(|(x, y)| *x <= a && b <= *y) {
                        for at in [b, a.wrapping_sub(PAGE)] {
                            if let Some(v) = victim(at) {
                                victims.push(v);
                            }
                        }
                    }
                }
            }
        }
        for i in k..N {
            if call_u32(base.add(16 * (N - 1 - i))) != 1001 {
                println!("k={k}: fake {i} not reached");
                return 3;
            }
        }
        for v in &victims {
            if bytes(*v, PAGE).iter().any(|x| *x != 0xCC) {
                println!("k={k}: executable memory next to the trampoline page, which the injector never allocated, was modified while {N} fakes were installed");
                return 4;
            }
        }
    }
    for v in &victims {
        if bytes(*v, PAGE).iter().any(|x| *x != 0xCC) {
            println!("k={k}: executable memory the injector never allocated was modified by removing the fakes");
            return 4;
        }
    }
    if bytes(base, pages * PAGE) != before {
        println!("k={k}: the functions are not byte-for-byte what they were");
        return 4;
    }
    for i in 0..N {
        if call_u32(base.add(16 * i)) != 7000 + i as u32 {
            return 4;
        }
    }
    0
}

fn main() {
    unsafe {
        for k in 0..4usize {
            let pid = libc::fork();
            if pid == 0 {
                libc::_exit(scenario(k));
            }
            let mut st = 0;
            libc::waitpid(pid, &mut st, 0);
            if libc::WIFSIGNALED(st) {
                println!("k={k}: killed by signal {} with {N} fakes in one injector", libc::WTERMSIG(st));
                std::process::exit(5);
            }
            if libc::WEXITSTATUS(st) != 0 {
                std::process::exit(libc::WEXITSTATUS(st));
            }
        }
        println!("ok");
    }
}
