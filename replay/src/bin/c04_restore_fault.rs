//! C04 / C05 replay: a restore that panics inside the injector's drop (the faked function's page was
//! unmapped while the injector lived, so mprotect fails) must still release the process-wide guard:
//! afterwards another thread must be able to obtain a preventer and an injector.
use injectorpp::interface::injector::*;
use replay::*;
use std::sync::mpsc;
use std::time::Duration;

extern "C" fn fake_fn() -> u32 {
    7
}

fn main() {
    unsafe {
        let base = map_rwx(0, 1);
        emit_ret_const(base.add(64), 1);
        protect_rx(base, 1);
        let r = std::panic::catch_unwind(|| {
            let mut inj = InjectorPP::new();
            inj.when_called_unchecked(FuncPtr::new(base.add(64) as *const (), ""))
                .will_execute_raw_unchecked(FuncPtr::new(fake_fn as *const (), ""));
            // the code goes away while the injector is alive (unloaded plug-in, freed JIT code)
            libc::munmap(base as *mut libc::c_void, PAGE);
        });
        println!("holder's scope exit: {}", if r.is_err() { "panicked (restore failed)" } else { "quiet" });
    }
    let (tx, rx) = mpsc::channel();
    std::thread::spawn(move || {
        let p = InjectorPP::prevent();
        drop(p);
        let i = InjectorPP::new();
        drop(i);
        let _ = tx.send(());
    });
    match rx.recv_timeout(Duration::from_secs(5)) {
        Ok(()) => println!("ok"),
        Err(_) => {
            println!("a waiting thread never got the guard: it was leaked by the failed restoration");
            std::process::exit(3);
        }
    }
}
