//! C04 replay: at any instant at most one thread holds a live injector or preventer. For each of the four
//! combinations (first holder: preventer | injector; second: preventer | injector) a second thread asks for its
//! guard while the first is held: it must NOT be admitted (observed for 400 ms), and it must be admitted once the
//! first holder lets go (deadline 5 s).
//! exit 0 = held; 3 = a second holder was admitted while the first guard was live; 4 = a waiter never got its turn
use injectorpp::interface::injector::*;
use std::sync::mpsc;
use std::time::Duration;

enum Held {
    P(#[allow(dead_code)] Preventer),
    I(#[allow(dead_code)] InjectorPP),
}

fn take(kind: u8) -> Held {
    if kind == 0 {
        Held::P(InjectorPP::prevent())
    } else {
        Held::I(InjectorPP::new())
    }
}

fn main() {
    let names = ["preventer", "injector"];
    for first in 0..2u8 {
        for second in 0..2u8 {
            let held = take(first);
            let (tx, rx) = mpsc::channel();
            let h = std::thread::spawn(move || {
                let g = take(second);
                let _ = tx.send(());
                drop(g);
            });
            if rx.recv_timeout(Duration::from_millis(400)).is_ok() {
                println!("a second thread obtained a {} while another thread's {} was still live", names[second as usize], names[first as usize]);
                std::process::exit(3);
            }
            drop(held);
            if rx.recv_timeout(Duration::from_secs(5)).is_err() {
                println!("a thread waiting for a {} never got its turn after the {} was dropped", names[second as usize], names[first as usize]);
                std::process::exit(4);
            }
            let _ = h.join();
        }
    }
    println!("ok");
}
