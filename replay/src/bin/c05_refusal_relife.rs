//! C05 replay over a history the per-call contracts do not see when the patching core keeps process-wide
//! state: an installation that is REFUSED because the target's page cannot be made writable (a MAP_SHARED view
//! of a file opened read-only: readable, but mprotect(RWX) fails with EACCES), raised while another fake is
//! installed. The unwind must restore that fake without a second panic (in a forked child: an abort is a
//! violation, not a crash of the checker), and afterwards a fresh thread must be able to create an injector and
//! use it normally.
//! exit 0 = held; 3 = fake not reached / later injector unusable; 4 = bytes not restored; 5 = child killed by a
//! signal (abort); 6 = the refusal did not happen (replay not applicable on this system)
use injectorpp::interface::injector::*;
use replay::*;
use std::sync::mpsc;
use std::time::Duration;

extern "C" fn fake_a() -> u32 {
    1001
}

unsafe fn readonly_shared_code() -> *mut u8 {
    let f = libc::open(b"/proc/self/exe\0".as_ptr() as *const libc::c_char, libc::O_RDONLY);
    assert!(f >= 0, "open /proc/self/exe");
    let p = libc::mmap(std::ptr::null_mut(), PAGE, libc::PROT_READ, libc::MAP_SHARED, f, 0);
    assert!(p != libc::MAP_FAILED, "mmap of the read-only file view");
    p as *mut u8
}

unsafe fn scenario() -> i32 {
    let base = map_rwx(0, 1);
    let entry = base.add(64);
    emit_ret_const(entry, 11);
    protect_rx(base, 1);
    let before = bytes(base, PAGE);
    let ro = readonly_shared_code();
    let r = std::panic::catch_unwind(|| {
        let mut inj = InjectorPP::new();
        inj.when_called_unchecked(FuncPtr::new(entry as *const (), "")).will_execute_raw_unchecked(FuncPtr::new(fake_a as *const (), ""));
        if call_u32(entry) != 1001 {
            std::process::exit(3);
        }
        // refused: the page of this target cannot be made writable
        inj.when_called_unchecked(FuncPtr::new(ro.add(128) as *const (), "")).will_execute_raw_unchecked(FuncPtr::new(fake_a as *const (), ""));
    });
    if r.is_ok() {
        println!("the installation on a read-only shared file view was not refused");
        return 6;
    }
    if bytes(base, PAGE) != before {
        println!("after the unwind of a refused installation the earlier fake is still in place");
        return 4;
    }
    // afterwards: any thread can create a new injector and use it normally
    let e = entry as usize;
    let (tx, rx) = mpsc::channel();
    std::thread::spawn(move || {
        let ok = std::panic::catch_unwind(|| {
            let mut inj = InjectorPP::new();
            inj.when_called_unchecked(FuncPtr::new(e as *const (), "")).will_execute_raw_unchecked(FuncPtr::new(fake_a as *const (), ""));
            call_u32(e as *mut u8) == 1001
        });
        let _ = tx.send(matches!(ok, Ok(true)) && call_u32(e as *mut u8) == 11);
    });
    match rx.recv_timeout(Duration::from_secs(5)) {
        Ok(true) => 0,
        Ok(false) => {
            println!("after a refused installation a fresh injector on a fresh thread cannot install / restore a fake");
            3
        }
        Err(_) => {
            println!("after a refused installation a fresh thread never obtained an injector");
            3
        }
    }
}

fn main() {
    unsafe {
        let pid = libc::fork();
        if pid == 0 {
            let rc = scenario();
            libc::_exit(rc);
        }
        let mut st = 0;
        libc::waitpid(pid, &mut st, 0);
        if libc::WIFSIGNALED(st) {
            println!("the process was killed by signal {} while unwinding from a refused installation (a second panic in a destructor aborts)", libc::WTERMSIG(st));
            std::process::exit(5);
        }
        let rc = libc::WEXITSTATUS(st);
        if rc == 6 {
            println!("replay not applicable here");
            std::process::exit(0);
        }
        if rc == 0 {
            println!("ok");
        }
        std::process::exit(rc);
    }
}
