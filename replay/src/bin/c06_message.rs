//! C06 (message clause) replay: a fake with `times: 2` is called once; the scope-exit verdict must
//! panic with a message that names both the expected (2) and the actual (1) count.
use injectorpp::interface::injector::*;

#[inline(never)]
pub fn target_fn(x: i32) -> i32 {
    std::hint::black_box(x) + 1
}

fn main() {
    let r = std::panic::catch_unwind(|| {
        let mut inj = InjectorPP::new();
        inj.when_called(injectorpp::func!(fn (target_fn)(i32) -> i32))
            .will_execute(injectorpp::fake!(func_type: fn(_x: i32) -> i32, returns: 5, times: 2));
        assert_eq!(target_fn(1), 5);
    });
    let msg = match r {
        Ok(()) => {
            println!("no verdict panic although 1 call was made and 2 were expected");
            std::process::exit(3);
        }
        Err(e) => e.downcast_ref::<String>().cloned().or_else(|| e.downcast_ref::<&str>().map(|s| s.to_string())).unwrap_or_default(),
    };
    println!("verdict message: {msg}");
    if !(msg.contains('2') && msg.contains('1')) {
        println!("the message does not name both numbers");
        std::process::exit(4);
    }
    println!("ok");
}
