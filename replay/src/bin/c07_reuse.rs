//! C07.reset replay: the same `fake!(..., times: N)` expression evaluated in `lifetimes`
//! consecutive injector lifetimes, `calls` calls in each. With calls == N every lifetime must
//! end quietly. usage: c07_reuse <lifetimes> <calls>   (N is fixed to 1 in the expression)
use injectorpp::interface::injector::*;

#[inline(never)]
pub fn target_fn(x: i32) -> i32 {
    std::hint::black_box(x) + 1
}

fn one_lifetime(calls: usize) {
    let mut inj = InjectorPP::new();
    inj.when_called(injectorpp::func!(fn (target_fn)(i32) -> i32))
        .will_execute(injectorpp::fake!(
            func_type: fn(_x: i32) -> i32,
            returns: 99,
            times: 1
        ));
    for _ in 0..calls {
        assert_eq!(target_fn(1), 99);
    }
}

fn main() {
    let lifetimes: usize = std::env::args().nth(1).map(|s| s.parse().unwrap()).unwrap_or(2);
    let calls: usize = std::env::args().nth(2).map(|s| s.parse().unwrap()).unwrap_or(1);
    for l in 0..lifetimes {
        let r = std::panic::catch_unwind(|| one_lifetime(calls));
        println!("lifetime {l}: {}", if r.is_ok() { "quiet" } else { "panicked" });
        let expect_quiet = calls == 1;
        if r.is_ok() != expect_quiet {
            std::process::exit(3);
        }
    }
    println!("ok");
}
