//! C08 replay: the two unit-returning `fake!` arms with `when` + `times` (with and without
//! `assign`) must compile and mean the same as every other arm. Building this file IS the
//! compile obligation; running it checks the call-budget meaning natively.
use injectorpp::interface::injector::*;

#[inline(never)]
pub fn unit_target(a: &mut i32, b: i32) {
    *a = std::hint::black_box(b) - 1;
}

fn main() {
    {
        let mut inj = InjectorPP::new();
        inj.when_called(injectorpp::func!(fn (unit_target)(&mut i32, i32) -> ()))
            .will_execute(injectorpp::fake!(
                func_type: fn(a: &mut i32, b: i32) -> (),
                when: b > 0,
                assign: { *a = b + 100 },
                times: 1
            ));
        let mut v = 0;
        unit_target(&mut v, 5);
        assert_eq!(v, 105);
    }
    {
        let mut inj = InjectorPP::new();
        inj.when_called(injectorpp::func!(fn (unit_target)(&mut i32, i32) -> ()))
            .will_execute(injectorpp::fake!(
                func_type: fn(_a: &mut i32, b: i32) -> (),
                when: b > 0,
                times: 1
            ));
        let mut v = 0;
        unit_target(&mut v, 5);
        assert_eq!(v, 0);
    }
    println!("ok");
}
