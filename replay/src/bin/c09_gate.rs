//! C09.gate replay: drive the real `will_execute_raw` with two signature texts.
//! usage: c09_gate '<expected>' '<offered>' accept|refuse
use injectorpp::interface::injector::*;
use replay::*;

extern "C" fn fake_fn() -> u32 {
    7
}

fn main() {
    let a: &'static str = Box::leak(std::env::args().nth(1).unwrap().into_boxed_str());
    let b: &'static str = Box::leak(std::env::args().nth(2).unwrap().into_boxed_str());
    let expect_accept = std::env::args().nth(3).unwrap() == "accept";
    unsafe {
        let base = map_rwx(0, 1);
        emit_ret_const(base.add(64), 1);
        protect_rx(base, 1);
        let before = bytes(base, PAGE);
        let r = std::panic::catch_unwind(|| {
            let mut inj = InjectorPP::new();
            inj.when_called(FuncPtr::new(base.add(64) as *const (), a)).will_execute_raw(FuncPtr::new(fake_fn as *const (), b));
        });
        let accepted = r.is_ok();
        println!("expected {a:?}, offered {b:?}: {}", if accepted { "accepted" } else { "refused" });
        if bytes(base, PAGE) != before {
            println!("code memory differs after the injector is gone");
            std::process::exit(4);
        }
        if accepted != expect_accept {
            std::process::exit(3);
        }
    }
    println!("ok");
}
