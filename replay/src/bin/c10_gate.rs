//! C10.gate replay: drive the real `will_return_boolean` with an arbitrary signature text.
//! usage: c10_gate '<signature>' accept|refuse
//! exit 0 = gate decided as expected (and, when refused, the target was left untouched).
use injectorpp::interface::injector::*;
use replay::*;

fn main() {
    let sig: &'static str = Box::leak(std::env::args().nth(1).unwrap().into_boxed_str());
    let expect_accept = std::env::args().nth(2).unwrap() == "accept";
    unsafe {
        let base = map_rwx(0, 1);
        emit_ret_const(base.add(64), 0);
        protect_rx(base, 1);
        let before = bytes(base, PAGE);
        let r = std::panic::catch_unwind(|| {
            let mut inj = InjectorPP::new();
            inj.when_called(FuncPtr::new(base.add(64) as *const (), sig)).will_return_boolean(true);
            let during = bytes(base.add(64), 8);
            drop(inj);
            during
        });
        let accepted = r.is_ok();
        println!("signature {sig:?}: {}", if accepted { "accepted" } else { "refused" });
        if !accepted && bytes(base, PAGE) != before {
            println!("refused target was modified");
            std::process::exit(4);
        }
        if accepted != expect_accept {
            std::process::exit(3);
        }
    }
    println!("ok");
}
