//! C12 replay (wave 9, seed C12-i): the same function faked twice in one injector. A trampoline page must stay
//! mapped until the injector goes away and must then be released exactly once: if the first trampoline's page is
//! given back early, whatever is mapped at that address afterwards (here: a page of ours) is unmapped by the stale
//! release when the injector is dropped — something the injector never allocated.
//! exit 0 = held; 4 = a page the injector did not allocate was unmapped; 3 = fake not reached
use injectorpp::interface::injector::*;
use replay::*;

extern "C" fn fake_a() -> u32 {
    1001
}
extern "C" fn fake_b() -> u32 {
    1002
}

fn rwx() -> Vec<(usize, usize)> {
    let maps = std::fs::read_to_string("/proc/self/maps").unwrap();
    maps.lines().filter_map(|l| {
        let mut it = l.split_whitespace();
        let (r, p) = (it.next()?, it.next()?);
        if !p.starts_with("rwx") {
            return None;
        }
        let (a, b) = r.split_once('-')?;
        Some((usize::from_str_radix(a, 16).ok()?, usize::from_str_radix(b, 16).ok()?))
    }).collect()
}

fn mapped(addr: usize) -> bool {
    let maps = std::fs::read_to_string("/proc/self/maps").unwrap();
    maps.lines().any(|l| {
        let r = l.split_whitespace().next().unwrap();
        let (a, b) = r.split_once('-').unwrap();
        usize::from_str_radix(a, 16).unwrap() <= addr && addr < usize::from_str_radix(b, 16).unwrap()
    })
}

fn main() {
    unsafe {
        let base = map_rwx(0, 1);
        let entry = base.add(64);
        emit_ret_const(entry, 11);
        protect_rx(base, 1);
        let before = rwx();
        let mut ours: Option<usize> = None;
        {
            let mut inj = InjectorPP::new();
            inj.when_called_unchecked(FuncPtr::new(entry as *const (), "")).will_execute_raw_unchecked(FuncPtr::new(fake_a as *const (), ""));
            let first: Vec<(usize, usize)> = rwx().into_iter().filter(|r| !before.contains(r)).collect();
            inj.when_called_unchecked(FuncPtr::new(entry as *const (), "")).will_execute_raw_unchecked(FuncPtr::new(fake_b as *const (), ""));
            if call_u32(entry) != 1002 {
                println!("the most recent fake is not in effect");
                std::process::exit(3);
            }
            // is the first trampoline's page still mapped? if it was given back early, something else moves in
            for (a, _b) in first {
                if !mapped(a) {
                    let p = libc::mmap(a as *mut libc::c_void, PAGE, libc::PROT_READ | libc::PROT_WRITE, libc::MAP_PRIVATE | libc::MAP_ANONYMOUS, -1, 0);
                    if p as usize == a {
                        *(p as *mut u8) = 0x5A;
                        ours = Some(a);
                    } else if p != libc::MAP_FAILED {
                        libc::munmap(p, PAGE);
                    }
                }
            }
        }
        if let Some(a) = ours {
            if !mapped(a) {
                println!("dropping the injector unmapped a page at {a:#x} that the injector never allocated (the first trampoline had been released early, and was released again)");
                std::process::exit(4);
            }
        }
        if call_u32(entry) != 11 {
            println!("function not restored");
            std::process::exit(4);
        }
        println!("ok");
    }
}
