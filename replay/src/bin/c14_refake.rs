//! C14 / C02 replay: the same async function faked twice in ONE injector; every await must complete at
//! once with the most recent value and without running the original body; after the injector is gone the
//! original behaviour and bytes are back.
use injectorpp::interface::injector::*;
use std::future::Future;
use std::pin::pin;
use std::sync::atomic::{AtomicUsize, Ordering};
use std::task::{Context, Poll, Waker};

static BODY_RUNS: AtomicUsize = AtomicUsize::new(0);

#[inline(never)]
async fn read_level(x: u32) -> u32 {
    BODY_RUNS.fetch_add(1, Ordering::SeqCst);
    std::hint::black_box(x) + 1
}

fn block_on<F: Future>(f: F) -> F::Output {
    let mut f = pin!(f);
    let mut cx = Context::from_waker(Waker::noop());
    match f.as_mut().poll(&mut cx) {
        Poll::Ready(v) => v,
        Poll::Pending => panic!("pending on first poll"),
    }
}

fn main() {
    assert_eq!(block_on(read_level(7)), 8);
    let runs0 = BODY_RUNS.load(Ordering::SeqCst);
    {
        let mut inj = InjectorPP::new();
        inj.when_called_async(injectorpp::async_func!(read_level(0), u32))
            .will_return_async(injectorpp::async_return!(111u32, u32));
        assert_eq!(block_on(read_level(7)), 111);
        inj.when_called_async(injectorpp::async_func!(read_level(0), u32))
            .will_return_async(injectorpp::async_return!(222u32, u32));
        let got = block_on(read_level(7));
        let ran = BODY_RUNS.load(Ordering::SeqCst) - runs0;
        println!("after re-fake: got {got}, original body ran {ran} time(s)");
        if got != 222 || ran != 0 {
            std::process::exit(3);
        }
    }
    let got = block_on(read_level(7));
    println!("after drop: got {got}");
    if got != 8 {
        std::process::exit(4);
    }
    println!("ok");
}
