//! C17 replay for a restoration that fails part-way through the injector's drop: two fakes in one injector, the
//! OLDER one on a page that is unmapped while the injector lives (its restoration is refused: mprotect fails and
//! the library panics), the NEWER one on an ordinary page. Guards are restored newest first, so when the panic
//! unwinds out of the drop the newer function has been rewritten; the platform must have been asked to flush a
//! range covering those bytes AFTER they were written (the flush request is observed by defining the
//! `__clear_cache` symbol in this binary, which records the range and its content at that moment).
//! exit 0 = held; 4 = the newer function was not restored; 7 = restored bytes not covered by a flush issued
//! after the restoring write; 6 = the restoration was not refused (replay not applicable)
use injectorpp::interface::injector::*;
use replay::*;
use std::sync::Mutex;

static FLUSHES: Mutex<Vec<(usize, usize, Vec<u8>)>> = Mutex::new(Vec::new());

#[no_mangle]
pub unsafe extern "C" fn __clear_cache(start: *mut libc::c_void, end: *mut libc::c_void) {
    let (s, e) = (start as usize, end as usize);
    let snap = if e > s && e - s <= 64 { std::slice::from_raw_parts(s as *const u8, e - s).to_vec() } else { Vec::new() };
    FLUSHES.lock().unwrap_or_else(|p| p.into_inner()).push((s, e, snap));
}

extern "C" fn fake_a() -> u32 {
    1001
}

fn main() {
    unsafe {
        let p1 = map_rwx(0, 1);
        emit_ret_const(p1.add(64), 1);
        protect_rx(p1, 1);
        let p2 = map_rwx(0, 1);
        emit_ret_const(p2.add(64), 2);
        protect_rx(p2, 1);
        let before = bytes(p2, PAGE);
        let (e1, e2) = (p1.add(64) as usize, p2.add(64) as usize);
        let r = std::panic::catch_unwind(move || {
            let mut inj = InjectorPP::new();
            inj.when_called_unchecked(FuncPtr::new(e1 as *const (), "")).will_execute_raw_unchecked(FuncPtr::new(fake_a as *const (), ""));
            inj.when_called_unchecked(FuncPtr::new(e2 as *const (), "")).will_execute_raw_unchecked(FuncPtr::new(fake_a as *const (), ""));
            let patched = bytes(e2 as *const u8, 16);
            // the older function's code goes away while the injector is alive (unloaded plug-in, freed JIT code)
            libc::munmap((e1 - 64) as *mut libc::c_void, PAGE);
            patched
        });
        if r.is_ok() {
            println!("the restoration of a function on an unmapped page was not refused");
            std::process::exit(0);
        }
        if bytes(p2, PAGE) != before {
            println!("the newer function was not restored before the older guard's restoration failed");
            std::process::exit(4);
        }
        // which bytes did the restoration rewrite? those of the entry patch: compare with what a fake looks like
        let fl = FLUSHES.lock().unwrap_or_else(|p| p.into_inner());
        for off in 0..5usize {
            let a = e2 + off;
            // the most recent flush covering this byte must have seen its final (restored) content
            let last = fl.iter().rev().find(|(s, e, _)| *s <= a && a < *e);
            let ok = match last {
                Some((s, _, snap)) => snap.get(a - s).copied() == Some(*(a as *const u8)),
                None => false,
            };
            if !ok {
                println!("byte {off} of the newer function's entry was rewritten by the restoration, but the last flush request covering it ({}) was issued before that write: the unwind left the drop without flushing", match last { Some((s, e, _)) => format!("{:#x}..{:#x}", s, e), None => "none".into() });
                std::process::exit(7);
            }
        }
        println!("ok");
    }
}
