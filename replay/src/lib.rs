//! Helpers shared by the native replay programs: synthetic code arenas whose
//! placement (page offset, distance) is chosen by the counterexample being replayed.
use std::ptr;

pub const PAGE: usize = 4096;

/// Map `pages` pages RWX at a kernel-chosen address (or near `hint`).
pub unsafe fn map_rwx(hint: usize, pages: usize) -> *mut u8 {
    let p = libc::mmap(
        hint as *mut libc::c_void,
        pages * PAGE,
        libc::PROT_READ | libc::PROT_WRITE | libc::PROT_EXEC,
        libc::MAP_PRIVATE | libc::MAP_ANONYMOUS,
        -1,
        0,
    );
    assert!(p != libc::MAP_FAILED, "mmap failed");
    p as *mut u8
}

/// Write `mov eax, imm32 ; ret` padded with int3 to 16 bytes at `at`.
pub unsafe fn emit_ret_const(at: *mut u8, v: u32) {
    let mut code = [0xCCu8; 16];
    code[0] = 0xB8;
    code[1..5].copy_from_slice(&v.to_le_bytes());
    code[5] = 0xC3;
    ptr::copy_nonoverlapping(code.as_ptr(), at, 16);
}

pub unsafe fn protect_rx(at: *mut u8, pages: usize) {
    assert_eq!(libc::mprotect(at as *mut libc::c_void, pages * PAGE, libc::PROT_READ | libc::PROT_EXEC), 0);
}

pub unsafe fn bytes(at: *const u8, n: usize) -> Vec<u8> {
    std::slice::from_raw_parts(at, n).to_vec()
}

pub fn hex(b: &[u8]) -> String {
    b.iter().map(|x| format!("{x:02x}")).collect::<Vec<_>>().join(" ")
}

pub unsafe fn call_u32(at: *const u8) -> u32 {
    let f: extern "C" fn() -> u32 = std::mem::transmute(at);
    f()
}
