//! Shim `libc`: the OS as seen by injectorpp's `common.rs`, modelled over ghost state.
//!
//! Compiled as a module of the extracted crate, which refers to itself as `libc`
//! (`extern crate self as libc;`): Kani 0.68 silently ignores #[kani::stub] on functions of a
//! dependency crate, and monitors have to be bound onto these functions.
//!
//! Same names and signatures as the functions and constants `common.rs` uses from the real
//! `libc` crate (linux/x86_64 values). Everything else is ghost state in `verif`, read by the
//! proof harnesses. This file is part of the *trusted base*: it states what `mmap`, `munmap`,
//! `mprotect`, `sysconf` are assumed to do.
#![allow(non_camel_case_types, non_upper_case_globals, static_mut_refs, clippy::missing_safety_doc)]

pub type c_void = core::ffi::c_void;
pub type c_int = i32;
pub type c_long = i64;
pub type size_t = usize;
pub type off_t = i64;

pub const PROT_READ: c_int = 1;
pub const PROT_WRITE: c_int = 2;
pub const PROT_EXEC: c_int = 4;
pub const MAP_PRIVATE: c_int = 0x0002;
pub const MAP_ANONYMOUS: c_int = 0x0020;
pub const MAP_ANON: c_int = 0x0020;
pub const MAP_JIT: c_int = 0x0800;
pub const MAP_FAILED: *mut c_void = !0usize as *mut c_void;
pub const _SC_PAGESIZE: c_int = 30;

pub mod verif {
    //! Ghost state. Harnesses initialise it, the model functions below update it.
    use super::*;

    #[cfg(not(verif_big_arena))]
    pub const ARENA: usize = 64;
    #[cfg(verif_big_arena)]
    pub const ARENA: usize = 2 * 4096 + 64;

    /// The only "code" memory of the model: targets and trampolines live here.
    pub static mut MEM: [u8; ARENA] = [0; ARENA];
    /// A second object, numerically far (different CBMC object) from `MEM`.
    pub static mut FAR: [u8; 64] = [0; 64];

    pub static mut PAGE_SIZE: usize = 4096;

    // ---- mmap behaviour chosen by the harness -------------------------------------------
    pub const MMAP_FAIL: u8 = 0;
    pub const MMAP_ARENA: u8 = 1; // return &MEM[MMAP_OFF[k]]
    pub const MMAP_FAR: u8 = 2; // return &FAR[16 * k]
    pub const MMAP_INT: u8 = 3; // return the integer MMAP_ADDR[k] (never dereferenced)
    pub const MAXMAP: usize = 8;
    pub static mut MMAP_MODE: [u8; MAXMAP] = [MMAP_FAIL; MAXMAP];
    pub static mut MMAP_OFF: [usize; MAXMAP] = [0; MAXMAP];
    pub static mut MMAP_ADDR: [usize; MAXMAP] = [0; MAXMAP];
    pub static mut MPROTECT_FAIL: bool = false;
    /// mprotect fails once this many requests have succeeded (a restoration that is refused part-way through the
    /// injector's drop: the counter is concrete, so the refused guard's copy loop is never explored)
    pub static mut MPROTECT_FAIL_AFTER_OK: usize = usize::MAX;

    // ---- observations -------------------------------------------------------------------
    pub static mut N_MMAP: usize = 0;
    pub static mut N_MMAP_OK: usize = 0;
    pub static mut N_MUNMAP: usize = 0;
    pub static mut N_MPROTECT: usize = 0;
    pub static mut N_FLUSH: usize = 0;
    /// total number of OS-visible events (mmap, munmap, mprotect, flush)
    pub static mut N_EVENTS: usize = 0;

    /// live mappings created by this model: (addr, len, live)
    pub static mut LIVE_ADDR: [usize; MAXMAP] = [0; MAXMAP];
    pub static mut LIVE_LEN: [usize; MAXMAP] = [0; MAXMAP];
    pub static mut LIVE_ON: [bool; MAXMAP] = [false; MAXMAP];
    pub static mut LAST_MMAP_LEN: usize = 0;
    pub static mut LAST_MMAP_HINT: usize = 0;
    pub static mut LAST_MMAP_PROT: c_int = 0;
    /// set when munmap is called with something that is not exactly a live mapping
    pub static mut BAD_MUNMAP: bool = false;
    /// addresses handed to munmap, in call order
    pub static mut UNMAP_ORDER: [usize; MAXMAP] = [0; MAXMAP];

    pub const MAXPROT: usize = 8;
    pub static mut PROT_START: [usize; MAXPROT] = [0; MAXPROT];
    pub static mut PROT_LEN: [usize; MAXPROT] = [0; MAXPROT];
    pub static mut PROT_BITS: [c_int; MAXPROT] = [0; MAXPROT];

    pub const MAXFLUSH: usize = 8;
    pub const SNAP: usize = 24;
    pub static mut FLUSH_START: [usize; MAXFLUSH] = [0; MAXFLUSH];
    pub static mut FLUSH_END: [usize; MAXFLUSH] = [0; MAXFLUSH];
    /// content of MEM[start..end) (first SNAP bytes) at the time of the flush
    pub static mut FLUSH_SNAP: [[u8; SNAP]; MAXFLUSH] = [[0; SNAP]; MAXFLUSH];
    /// value of N_EVENTS when the flush happened (ordering w.r.t. other events)
    pub static mut FLUSH_AT: [usize; MAXFLUSH] = [0; MAXFLUSH];
    /// record flush content? (only the flush-content obligations of C17 need it; it costs a 24-step loop per flush)
    pub static mut SNAP_ON: bool = false;

    /// order of restore-relevant events: (kind, addr) — kind 1 = mprotect, 2 = munmap, 3 = flush
    pub const MAXEV: usize = 32;
    pub static mut EV_KIND: [u8; MAXEV] = [0; MAXEV];
    pub static mut EV_ADDR: [usize; MAXEV] = [0; MAXEV];

    pub fn mem_base() -> usize {
        unsafe { MEM.as_ptr() as usize }
    }
    pub fn mem_ptr(off: usize) -> *mut u8 {
        unsafe { MEM.as_mut_ptr().add(off) }
    }
    pub fn far_ptr() -> *mut u8 {
        unsafe { FAR.as_mut_ptr() }
    }
    pub fn live_count() -> usize {
        let mut n = 0;
        let mut i = 0;
        while i < MAXMAP {
            if unsafe { LIVE_ON[i] } {
                n += 1;
            }
            i += 1;
        }
        n
    }
    pub unsafe fn log_event(kind: u8, addr: usize) {
        // lets a harness observe the state of the crate under verification at the instant of each
        // OS event (empty function; a monitor is bound onto it with #[kani::stub])
        crate::verif_rt::event_hook(kind);
        if N_EVENTS < MAXEV {
            EV_KIND[N_EVENTS] = kind;
            EV_ADDR[N_EVENTS] = addr;
        }
        N_EVENTS += 1;
    }
    /// nondeterministic witness (the crate is also type-checked by plain rustc, without Kani, by the type-link obligations)
    #[cfg(kani)]
    fn nondet_usize() -> usize {
        kani::any()
    }
    #[cfg(not(kani))]
    fn nondet_usize() -> usize {
        0
    }
    /// is the byte at `a` inside some interval made R|W|X by a successful mprotect, or inside a
    /// live RWX mapping handed out by mmap?
    pub fn writable_byte(a: usize) -> bool {
        unsafe {
            let mut i = 0;
            while i < MAXPROT {
                if i < N_MPROTECT
                    && PROT_BITS[i] == (PROT_READ | PROT_WRITE | PROT_EXEC)
                    && PROT_START[i] <= a
                    && a < PROT_START[i] + PROT_LEN[i]
                {
                    return true;
                }
                i += 1;
            }
            let mut k = 0;
            while k < MAXMAP {
                if LIVE_ON[k] && LIVE_ADDR[k] <= a && a < LIVE_ADDR[k] + LIVE_LEN[k] {
                    return true;
                }
                k += 1;
            }
            false
        }
    }
    /// is EVERY byte of [a, a+n) writable (by the union of all successful mprotect calls and live
    /// mappings)?  ∀ by nondeterministic witness: use in positive (asserted) positions only.
    pub fn writable(a: usize, n: usize) -> bool {
        let w: usize = nondet_usize();
        if w >= n {
            return true;
        }
        writable_byte(a + w)
    }
    /// set when a flush (= the end of a write, C17) covers a byte that was not writable at that moment
    pub static mut FLUSH_UNPROT: bool = false;
    /// The flush primitive of the model (bound onto `__clear_cache` by `#[kani::stub]`).
    pub unsafe fn flush(start: *mut u8, end: *mut u8) {
        let s = start as usize;
        let e = end as usize;
        if e > s {
            let w: usize = nondet_usize();
            if w < e - s && !writable_byte(s + w) {
                FLUSH_UNPROT = true;
            }
        }
        if N_FLUSH < MAXFLUSH {
            FLUSH_START[N_FLUSH] = s;
            FLUSH_END[N_FLUSH] = e;
            FLUSH_AT[N_FLUSH] = N_EVENTS;
            let base = mem_base();
            // snapshot only ranges that lie inside the arena (not in the two-page arena variant,
            // whose obligations do not look at flush content)
            if SNAP_ON && s >= base && e <= base + ARENA && s <= e {
                let mut i = 0;
                while i < SNAP {
                    if s + i < e {
                        FLUSH_SNAP[N_FLUSH][i] = MEM[s - base + i];
                    }
                    i += 1;
                }
            }
        }
        N_FLUSH += 1;
        log_event(3, s);
    }
}

use verif::*;

pub unsafe fn sysconf(name: c_int) -> c_long {
    if name == _SC_PAGESIZE {
        PAGE_SIZE as c_long
    } else {
        -1
    }
}

/// Assumed contract of `mmap(hint, len, RWX, MAP_PRIVATE|MAP_ANONYMOUS, -1, 0)`:
/// either fails (returns MAP_FAILED, nothing changes) or returns the start of a fresh
/// mapping of `len` bytes at an address of the OS's choosing (the hint need not be honoured).
#[inline(never)]
pub unsafe fn mmap(addr: *mut c_void, len: size_t, prot: c_int, flags: c_int, fd: c_int, offset: off_t) -> *mut c_void {
    mmap_impl(addr, len, prot, flags, fd, offset)
}

pub unsafe fn mmap_impl(
    addr: *mut c_void,
    len: size_t,
    prot: c_int,
    _flags: c_int,
    _fd: c_int,
    _offset: off_t,
) -> *mut c_void {
    let k = N_MMAP;
    N_MMAP += 1;
    LAST_MMAP_LEN = len;
    LAST_MMAP_HINT = addr as usize;
    LAST_MMAP_PROT = prot;
    log_event(4, addr as usize);
    if k >= MAXMAP || MMAP_MODE[k] == MMAP_FAIL {
        return MAP_FAILED;
    }
    let p: *mut c_void = if MMAP_MODE[k] == MMAP_ARENA {
        mem_ptr(MMAP_OFF[k]) as *mut c_void
    } else if MMAP_MODE[k] == MMAP_FAR {
        FAR.as_mut_ptr().add(16 * k) as *mut c_void
    } else {
        MMAP_ADDR[k] as *mut c_void
    };
    LIVE_ADDR[k] = p as usize;
    LIVE_LEN[k] = len;
    LIVE_ON[k] = true;
    N_MMAP_OK += 1;
    p
}

/// Assumed contract of `munmap`: legal only on exactly a live mapping `(addr, len)`.
#[inline(never)]
pub unsafe fn munmap(addr: *mut c_void, len: size_t) -> c_int {
    munmap_impl(addr, len)
}

pub unsafe fn munmap_impl(addr: *mut c_void, len: size_t) -> c_int {
    if N_MUNMAP < MAXMAP {
        UNMAP_ORDER[N_MUNMAP] = addr as usize;
    }
    N_MUNMAP += 1;
    log_event(2, addr as usize);
    let a = addr as usize;
    let mut i = 0;
    while i < MAXMAP {
        if LIVE_ON[i] && LIVE_ADDR[i] == a && LIVE_LEN[i] == len {
            LIVE_ON[i] = false;
            return 0;
        }
        i += 1;
    }
    BAD_MUNMAP = true;
    -1
}

#[inline(never)]
pub unsafe fn mprotect(addr: *mut c_void, len: size_t, prot: c_int) -> c_int {
    mprotect_impl(addr, len, prot)
}

pub unsafe fn mprotect_impl(addr: *mut c_void, len: size_t, prot: c_int) -> c_int {
    let k = N_MPROTECT;
    log_event(1, addr as usize);
    if MPROTECT_FAIL || N_MPROTECT >= MPROTECT_FAIL_AFTER_OK {
        return -1;
    }
    if k < MAXPROT {
        PROT_START[k] = addr as usize;
        PROT_LEN[k] = len;
        PROT_BITS[k] = prot;
    }
    N_MPROTECT += 1;
    0
}
