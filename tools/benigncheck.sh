#!/bin/bash
# usage: tools/benigncheck.sh <patch.diff> <PROP> [PROP...]
# applies a behaviour-preserving change to /repo, runs the given quick checks (3 at a time) and reverts.
# A VIOLATION line here is a false alarm; exit 2 (undecided) is reported separately.
patch=$1; shift
cd /repo || exit 2
if [ -n "$(git status --porcelain -- src)" ]; then echo "/repo/src is not clean"; exit 2; fi
git apply "$patch" || { echo "patch does not apply"; exit 2; }
trap 'git -C /repo checkout -- . ' EXIT
cd /verif
printf "%s\n" "$@" | xargs -P 3 -I{} sh -c 'VERIF_EVIDENCE_DIR=/tmp/ev_benign VERIF_NO_PLAYBACK=1 VERIF_JOBS=6 python3 vcheck.py {} --tier quick > /tmp/benign_out_{}.log 2>&1; echo "{} exit=$? $(grep -c "^VIOLATION" /tmp/benign_out_{}.log) violations; $(grep -m2 -E "^(UNDECIDED|VIOLATION)" /tmp/benign_out_{}.log | cut -c1-160 | tr "\n" "|")"'
