#!/bin/bash
# usage: tools/benignone.sh <name (seeded/benign/<name>.diff)> <PROP> [PROP...]
# one behaviour-preserving change against checks, on a scratch copy of /repo/src (never touches /repo).
# A VIOLATION line here is a false alarm; exit 2 (undecided) is reported separately.
n=$1; shift
cd /verif
scratch=/tmp/benignone_$n
rm -rf $scratch && mkdir -p $scratch && cp -r /repo/src $scratch/src
(cd $scratch && patch -p1 -s < /verif/seeded/benign/$n.diff) || { echo "$n patch failed"; exit 2; }
for prop in "$@"; do
  VERIF_REPO=$scratch VERIF_WORK_SUFFIX=-ben-$n VERIF_EVIDENCE_DIR=/tmp/ev_benign VERIF_NO_PLAYBACK=1 VERIF_JOBS=${VERIF_JOBS:-6} python3 vcheck.py $prop --tier quick > /tmp/benignone_$n-$prop.log 2>&1
  echo "$n $prop exit=$? $(grep -c '^VIOLATION' /tmp/benignone_$n-$prop.log) violations; $(grep -m2 -E '^(UNDECIDED|VIOLATION|NOTE)' /tmp/benignone_$n-$prop.log | cut -c1-160 | tr '\n' '|')"
done
rm -rf $scratch work/*-ben-$n
