#!/bin/bash
# usage: confirm_seed.sh <worktree>   — confirms: patch applies to pristine, suite 71/0 with change, demo fails with change, demo passes without
w=$1
cd $w || exit 2
export CARGO_TARGET_DIR=$w/target CARGO_NET_OFFLINE=true
git checkout -q -- src tests 2>/dev/null
git apply --check seed/patch.diff || { echo "$w: PATCH DOES NOT APPLY"; exit 1; }
# without change
bash seed/demo/run_demo.sh > /tmp/confirm_$(basename $w)_orig.log 2>&1; rc_orig=$?
git apply seed/patch.diff
suite=$(cargo test --offline --tests 2>&1 | grep -E "^test result" | awk '{p+=$4; f+=$6} END {print p"/"f}')
bash seed/demo/run_demo.sh > /tmp/confirm_$(basename $w)_seed.log 2>&1; rc_seed=$?
git checkout -q -- src
echo "$(basename $w): suite(with change)=$suite demo_orig_rc=$rc_orig demo_seed_rc=$rc_seed  => $([ "$suite" = "71/0" ] && [ $rc_orig -eq 0 ] && [ $rc_seed -ne 0 ] && echo CONFIRMED || echo REJECTED)"
