#!/usr/bin/env python3
"""Regenerates MANIFEST.json from contracts/registry.py: a property is claimed iff it has obligations
registered and CLAIMED[prop] is set; everything else is listed under not_applicable with its reason."""
import json
import os
import sys

HERE = os.path.dirname(os.path.dirname(os.path.abspath(__file__)))
sys.path.insert(0, os.path.join(HERE, "lib"))
sys.path.insert(0, os.path.join(HERE, "contracts"))
import registry  # noqa: E402

props = [json.loads(l) for l in open(os.path.join(HERE, "properties.jsonl"))]
checks, na = [], []
for p in props:
    pid = p["id"]
    info = registry.PROPS[pid]
    hs = [h for h, s in registry.HARNESSES.items() if pid in s["props"]]
    vs = [h for h, s in registry.VERUS.items() if pid in s["props"]]
    if not info.get("claimed"):
        na.append(dict(property_id=pid, reason=info.get("na_reason", "check under construction; see DESIGN.md")))
        continue
    checks.append(dict(
        property_id=pid,
        quick_cmd="python3 vcheck.py %s --tier quick" % pid,
        thorough_cmd="python3 vcheck.py %s --tier thorough" % pid,
        evidence_file="/verif/evidence/%s.json" % pid,
        replay_cmd_template="cat {path}",
        engine="kani+verus",
        level_claimed=dict(category=info.get("level", "proof"), text=info["level_text"], design_ref=info.get("design_ref", "DESIGN.md section 3 / " + pid)),
        level_note=info["level_note"],
        technique=info.get("technique", "contract-based deductive verification: Kani (CBMC) harness obligations on code extracted from /repo/src each run"),
    ))
m = dict(
    version=1,
    setup_cmd="python3 tools/setup.py",
    hooks=dict(guard="none (no hooks in /repo)", enable="contracts and the T4 panic hook are spliced into a scratch copy of /repo/src at every run (lib/extract.py); /repo itself carries no instrumentation",
               baseline_off_cmd="cd /repo && cargo test --workspace --no-fail-fast --offline --tests", source_commits=[], add_only=True),
    engines=[dict(name="kani", path="/root/.cargo/bin/cargo-kani", serves_properties=sorted({p for s in registry.HARNESSES.values() for p in s["props"]}), kind_free_text="Kani 0.68 / CBMC 6.11: harness obligations with symbolic inputs on the real code"),
             dict(name="verus", path="/usr/local/bin/verus", serves_properties=sorted({p for s in registry.VERUS.values() for p in s["props"]}), kind_free_text="Verus 0.2026.09.13 / Z3: loop contract of the allocator, induction lemmas over the contracts")],
    checks=checks,
    not_applicable=na,
    notes="Five genuine defects repaired by fix: commits in /repo (see known_findings.json); exit code 2 of a check = undecided (never a VIOLATION).",
)
json.dump(m, open(os.path.join(HERE, "MANIFEST.json"), "w"), indent=1)
print("claimed:", [c["property_id"] for c in checks], "n/a:", [x["property_id"] for x in na])
