#!/bin/bash
# runs every registered quick (or $1=thorough) check on /repo's current tree, sequentially, and validates evidence
tier=${1:-quick}
HERE=$(cd "$(dirname "$0")/.." && pwd)
cd "$HERE"
EV=${VERIF_EVIDENCE_DIR:-$HERE/evidence}
rc_all=0
for p in $(python3 -c "import json; print(' '.join(c['property_id'] for c in json.load(open('MANIFEST.json'))['checks']))"); do
  start=$(date +%s)
  out=$(python3 vcheck.py $p --tier $tier 2>&1); rc=$?
  echo "$out" | grep -E "^(VIOLATION|KNOWN-FINDING|UNDECIDED|== $p:)" | cut -c1-220
  python3-vt - <<PY
import json,jsonschema
try:
    jsonschema.validate(json.load(open('$EV/$p.json')),json.load(open('/root/.vp/EVIDENCE.schema.json')))
    d=json.load(open('$EV/$p.json'))
    ok = d['coverage']['obligations']==d['coverage']['discharged']
    print("   evidence valid; discharged==obligations:", ok, " rc=$rc  ", $(date +%s)-$start, "s")
except Exception as e:
    print("   EVIDENCE INVALID:", str(e)[:200])
PY
  [ $rc -ne 0 ] && rc_all=1
done
exit $rc_all
