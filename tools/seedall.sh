#!/bin/bash
# runs every seeded change against the check of the property it breaks; prints one line per seed
cd /verif
for d in seeded/*/; do
  id=$(basename $d)
  prop=$(python3 -c "import json,sys; print(json.load(open('$d/meta.json')).get('property','${id%%-*}'))")
  out=$(VERIF_MAX_PLAYBACK=0 VERIF_NO_PLAYBACK=1 tools/seedcheck.sh /verif/$d/patch.diff $prop 2>&1)
  nv=$(echo "$out" | grep -c "^VIOLATION")
  rc=$(echo "$out" | grep -E "^== $prop:" | sed 's/.*exit //')
  echo "$id  property=$prop  violations=$nv  exit=$rc  $(echo "$out" | grep -m1 '   obligation' | cut -c1-120)"
done
