#!/bin/bash
# runs every seeded change against the check of the property it breaks, on a scratch COPY of /repo/src
# (VERIF_REPO), so /repo itself is never touched; prints one line per seed. Native process-level replays are
# skipped here (they are built against /repo).
# usage: tools/seedall.sh [k n]   — optional shard k of n (0-based), so that several shards can run side by side
cd /verif
k=${1:-0}; n=${2:-1}; i=0
for d in seeded/*/; do
  id=$(basename $d)
  [ "$id" = "benign" ] && continue
  i=$((i+1)); [ $((i % n)) -ne $k ] && continue
  prop=$(python3 -c "import json,sys; print(json.load(open('$d/meta.json')).get('property','${id%%-*}'))")
  scratch=/tmp/seedrepo_$id
  rm -rf $scratch && mkdir -p $scratch && cp -r /repo/src $scratch/src
  (cd $scratch && patch -p1 -s < /verif/$d/patch.diff) || { echo "$id patch failed"; continue; }
  out=$(VERIF_REPO=$scratch VERIF_WORK_SUFFIX=-seed-$id VERIF_EVIDENCE_DIR=/tmp/ev_seed VERIF_NO_PLAYBACK=1 VERIF_JOBS=${VERIF_JOBS:-8} python3 vcheck.py $prop --tier quick 2>&1)
  nv=$(echo "$out" | grep -c "^VIOLATION")
  rc=$(echo "$out" | grep -E "^== $prop:" | sed 's/.*exit //')
  echo "$id  property=$prop  violations=$nv  exit=$rc  $(echo "$out" | grep -m1 '   obligation' | cut -c1-110)"
  rm -rf $scratch work/*-seed-$id
done
