#!/bin/bash
# usage: tools/seedcheck.sh <patch.diff> <PROP> [PROP...]
# applies a seeded change to /repo, runs the given checks with evidence redirected, and ALWAYS reverts.
patch=$1; shift
cd /repo || exit 2
if [ -n "$(git status --porcelain -- src)" ]; then echo "/repo/src is not clean"; exit 2; fi
git apply "$patch" || { echo "patch does not apply"; exit 2; }
trap 'git -C /repo checkout -- . ' EXIT
cd /verif
for p in "$@"; do
  VERIF_EVIDENCE_DIR=/tmp/ev_seed VERIF_MAX_PLAYBACK=${VERIF_MAX_PLAYBACK:-2} python3 vcheck.py $p --tier ${TIER:-quick} 2>&1 | grep -E "^(VIOLATION|KNOWN-FINDING|UNDECIDED|== |   obligation|   native)" | cut -c1-330
done
