#!/bin/bash
# usage: tools/seedone.sh <seed id> [PROP...]   — one seeded change against checks, on a scratch copy of /repo/src
id=$1; shift
cd /verif
d=seeded/$id
props="$@"; [ -z "$props" ] && props=$(python3 -c "import json; print(json.load(open('$d/meta.json')).get('property','${id%%-*}'))")
scratch=/tmp/seedone_$id
rm -rf $scratch && mkdir -p $scratch && cp -r /repo/src $scratch/src
(cd $scratch && patch -p1 -s < /verif/$d/patch.diff) || { echo "$id patch failed"; exit 2; }
for prop in $props; do
  VERIF_REPO=$scratch VERIF_WORK_SUFFIX=-one-$id VERIF_EVIDENCE_DIR=/tmp/ev_seed VERIF_NO_PLAYBACK=1 VERIF_JOBS=${VERIF_JOBS:-8} python3 vcheck.py $prop --tier quick 2>&1 | grep -E "^(VIOLATION|KNOWN-FINDING|UNDECIDED|== |   obligation)" | cut -c1-300 | tail -6
done
rm -rf $scratch work/*-one-$id
