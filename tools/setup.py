#!/usr/bin/env python3
"""setup_cmd: nothing to build ahead of time (every check extracts and compiles from /repo's current
tree). Verifies the tools are present and warms the Kani/Verus caches with a trivial run."""
import shutil
import subprocess
import sys

ok = True
for t in ("cargo-kani", "verus", "cargo"):
    if not shutil.which(t):
        print("missing tool:", t)
        ok = False
print(subprocess.run(["cargo", "kani", "--version"], stdout=subprocess.PIPE, text=True).stdout.strip())
sys.exit(0 if ok else 1)
