#!/usr/bin/env python3
"""Driver: decides one property by discharging its obligations on /repo's *current* working tree.

  vcheck.py <PROP> [--tier quick|thorough] [--only h1,h2] [--keep] [--jobs N]

exit 0  every obligation discharged (known findings are printed as KNOWN-FINDING lines)
exit 1  at least one obligation that is not a listed known finding failed -> VIOLATION line(s)
exit 2  undecided: lost anchor, harness does not build, vacuous harness, solver timeout,
        implicit panic (overflow / expect / index) reachable, tool failure. Never a VIOLATION.
"""
import argparse
import concurrent.futures as cf
import json
import os
import re
import shutil
import subprocess
import sys
import time

HERE = os.path.dirname(os.path.abspath(__file__))
sys.path.insert(0, os.path.join(HERE, "lib"))
sys.path.insert(0, os.path.join(HERE, "contracts"))
import extract  # noqa: E402
import registry  # noqa: E402

# --no-assertion-reach-checks: Kani's per-assertion reachability covers multiply the number of SAT
# calls (measured 10 -> 2 on the lifecycle harnesses); vacuity is guarded by explicit COVER: goals instead.
KANI_FLAGS = ["-Z", "stubbing", "-Z", "function-contracts", "--no-assertion-reach-checks"]
MEMSAFETY = re.compile(r"dereference failure|pointer NULL|pointer invalid|deallocated dynamic object|dead object|pointer outside object bounds|invalid integer address|memcpy|memmove|free argument|double free|pointer relation|offset_from|same object", re.I)


def log(*a):
    print(*a, flush=True)


def run(cmd, cwd=None, env=None, timeout=None):
    t0 = time.time()
    try:
        p = subprocess.run(cmd, cwd=cwd, env=env, stdout=subprocess.PIPE, stderr=subprocess.STDOUT, timeout=timeout, text=True, errors="replace")
        return p.returncode, p.stdout, time.time() - t0
    except subprocess.TimeoutExpired as e:
        out = e.stdout or ""
        if isinstance(out, bytes):
            out = out.decode(errors="replace")
        return -9, out + "\n[timeout after %ss]" % timeout, time.time() - t0


CHECK_RE = re.compile(r"Check \d+: (\S+)\n\s+- Status: (\w+)\n\s+- Description: \"(.*?)\"\n\s+- Location: ([^\n]*)", re.S)


def parse_kani(out):
    checks = [dict(name=m.group(1), status=m.group(2), desc=m.group(3).strip('"'), loc=m.group(4)) for m in CHECK_RE.finditer(out)]
    solver = sum(float(x) for x in re.findall(r"Runtime decision procedure: ([0-9.]+)s", out))
    vt = re.findall(r"Verification Time: ([0-9.]+)s", out)
    return checks, solver, (float(vt[-1]) if vt else None)


def classify(h, spec, out, rc):
    """-> dict(status, obligations{id:status}, failures[], covers{}, solver_s)"""
    checks, solver, vtime = parse_kani(out)
    res = dict(harness=h, status="pass", obligations={}, failures=[], undecided=[], covers={}, solver_s=solver, verif_s=vtime, n_checks=len(checks))
    if rc == -9:
        res["status"] = "undecided"
        res["undecided"].append("timeout")
        return res
    if not checks or "VERIFICATION:-" not in out:
        res["status"] = "undecided"
        tail = "\n".join(out.strip().split("\n")[-25:])
        res["undecided"].append("harness did not build or run: " + tail)
        return res
    expected_fail = spec.get("expect_fail_desc")  # implicit panic this harness is about (e.g. expect on null)
    for c in checks:
        d = c["desc"]
        if d.startswith("COVER:"):
            st = res["covers"].get(d)
            # a cover may be instantiated several times: satisfied if any instance is
            if st != "SATISFIED":
                res["covers"][d] = c["status"]
            continue
        if spec.get("contract_proof") and d.lstrip('"').startswith("|"):
            # the post-condition of a Kani function contract (its description is the ensures closure)
            d = "OBL:%s.contract.%s: %s" % (spec["props"][0], h.replace("contract_", ""), " ".join(d.split())[:160])
        if d.startswith("OBL:"):
            oid = d[4:].split(":")[0].strip()
            prev = res["obligations"].get(oid)
            st = c["status"]
            rank = {"FAILURE": 3, "UNDETERMINED": 2, "UNREACHABLE": 0, "SUCCESS": 1}
            if prev is None or rank.get(st, 2) > rank.get(prev, 2):
                # SUCCESS dominates UNREACHABLE (some monomorphic copies are unreachable), FAILURE dominates all
                res["obligations"][oid] = st
            if st == "FAILURE":
                res["failures"].append(dict(obligation=oid, desc=d, loc=c["loc"], kind="obligation"))
            continue
        if c["status"] == "FAILURE":
            if expected_fail and (expected_fail in d or expected_fail in c["name"]):
                res.setdefault("expected_failures", []).append(d)
                continue
            if re.search(r"__rust_(de)?alloc|__rust_realloc|kani_lib\.c", c["name"] + " " + c["loc"]):
                # allocator-protocol checks of Kani's heap model (free of a non-heap pointer, layout mismatch):
                # seen spuriously on correct code that moves a MutexGuard out of a ManuallyDrop; they say nothing
                # about the bytes the library writes, so they are reported as undecided, not as a violation
                res["undecided"].append("allocator-model check failed (not an obligation): %s @ %s" % (d, c["loc"]))
            elif MEMSAFETY.search(d) or "pointer_dereference" in c["name"]:
                res["failures"].append(dict(obligation="memory-safety", desc=d, loc=c["loc"], kind="memory"))
            else:
                res["undecided"].append("check failed that is not an obligation: %s @ %s" % (d, c["loc"]))
        elif c["status"] == "UNDETERMINED":
            res["undecided"].append("undetermined: %s" % d)
    for cov in spec.get("covers", ["COVER:end"]):
        if res["covers"].get(cov) != "SATISFIED":
            res["undecided"].append("vacuity guard: cover %r is %s" % (cov, res["covers"].get(cov, "absent")))
    for cov in spec.get("covers_unreachable", []):
        if res["covers"].get(cov) == "SATISFIED":
            res["failures"].append(dict(obligation=cov.replace("COVER:", "must-not-reach."), desc="state reached that the obligation says is unreachable: " + cov, loc="", kind="obligation"))
            res["obligations"][cov.replace("COVER:", "must-not-reach.")] = "FAILURE"
        else:
            res["obligations"][cov.replace("COVER:", "must-not-reach.")] = "SUCCESS"
    if expected_fail and not res.get("expected_failures") and spec.get("or_hook") and res["covers"].get("COVER:panic-hook") == "SATISFIED":
        res["obligations"]["must-panic"] = "SUCCESS"  # refused through an explicit panic (hook reached) instead of the implicit one
    elif expected_fail and not res.get("expected_failures"):
        res["failures"].append(dict(obligation="must-panic", desc="the implicit panic %r this obligation requires was not raised" % expected_fail, loc="", kind="obligation"))
        res["obligations"]["must-panic"] = "FAILURE"
    elif expected_fail:
        res["obligations"]["must-panic"] = "SUCCESS"
    if not spec.get("expects_panic"):
        # hook obligations only count in harnesses that drive a refusal (and prove the hook reachable)
        for oid in [o for o in res["obligations"] if o.startswith("panic.") and res["obligations"][o] != "FAILURE"]:
            del res["obligations"][oid]
    elif res["covers"].get("COVER:panic-hook") != "SATISFIED":
        res["undecided"].append("vacuity guard: the refusal path (panic hook) is not reachable in this harness")
    for oid, st in list(res["obligations"].items()):
        if st == "UNREACHABLE":
            if oid.startswith("panic."):
                del res["obligations"][oid]  # hook obligations of a harness in which no panic is reachable
            elif oid not in spec.get("may_be_unreachable", []):
                res["undecided"].append("obligation %s is unreachable (vacuous)" % oid)
    minob = spec.get("min_obligations", 1)
    if len(res["obligations"]) < minob:
        res["undecided"].append("only %d obligations generated, expected >= %d" % (len(res["obligations"]), minob))
    if res["failures"]:
        res["status"] = "violation"
    elif res["undecided"]:
        res["status"] = "undecided"
    return res


def fq_name(h, spec):
    """fully qualified harness path from the location of its proof module"""
    if spec.get("fq"):
        return spec["fq"]
    dest = extract.T2_MODULES[spec["module"]][1] if spec.get("module") in extract.T2_MODULES else spec["module_dest"]
    return dest[:-3].replace("/", "::") + "::" + h


def playback(crate, env, h, spec, td):
    """Counterexample of a failed obligation: Kani's concrete playback gives the values of every
    kani::any(); `cargo kani playback` then runs the harness NATIVELY (real extracted code, concrete
    inputs, no solver) and the failing obligation must fail there too."""
    cmd = ["cargo", "kani"] + KANI_FLAGS + ["-Z", "concrete-playback", "--concrete-playback=inplace", "--harness", fq_name(h, spec), "--exact", "--target-dir", td] + spec.get("kani_args", [])
    rc, out, _ = run(cmd, cwd=crate, env=env, timeout=spec.get("timeout", 1800))
    dest = extract.T2_MODULES[spec["module"]][1] if spec.get("module") in extract.T2_MODULES else spec["module_dest"]
    src = open(os.path.join(crate, "src", dest)).read()
    tests = []
    for m in re.finditer(r"/// Check for `(\w+)`: \"*([^\"\n]*)\"*\n(?:///[^\n]*\n)*\s*#\[test\]\nfn (\w+)\(\) \{\n\s+let concrete_vals: Vec<Vec<u8>> = vec!\[\n(.*?)\n\s+\];", src, re.S):
        kind, desc, name, body = m.group(1), m.group(2), m.group(3), m.group(4)
        if ("_" + h + "_") not in name:
            continue
        vals = []
        for line in body.split("\n"):
            line = line.strip()
            if line.startswith("vec!["):
                vals.append([int(x) for x in re.findall(r"\d+", line[5:])])
        tests.append(dict(kind=kind, desc=desc, vals=vals, test=name))
    for t in tests:
        if t["kind"] == "cover":
            continue
        env2 = dict(env, CARGO_TARGET_DIR=td + "-pb")
        rc2, out2, _ = run(["cargo", "kani", "playback", "-Z", "concrete-playback", "--", t["test"]], cwd=crate, env=env2, timeout=600)
        oid = t["desc"][4:].split(":")[0] if t["desc"].startswith("OBL:") else t["desc"][:40]
        t["native_failed"] = "test result: FAILED" in out2
        t["native_same_obligation"] = (oid in out2) and t["native_failed"]
        keep = [l for l in out2.split("\n") if "OBL:" in l or "panicked at" in l or "test result" in l]
        t["native_transcript"] = "\n".join(keep[-8:])
        shutil.rmtree(td + "-pb", ignore_errors=True)
    return tests


def le(vals, i):
    return int.from_bytes(bytes(vals[i]), "little") if i < len(vals) else None


class Ctx:
    def __init__(self, prop, tier, keep, jobs, only):
        self.prop, self.tier, self.keep, self.jobs, self.only = prop, tier, keep, jobs, only
        self.work = os.path.join(HERE, "work", prop + "-" + tier + os.environ.get("VERIF_WORK_SUFFIX", ""))
        self.replays = os.path.join(HERE, "work", "replays")
        self.t0 = time.time()


def kani_env(cfgs):
    env = dict(os.environ)
    env["CARGO_NET_OFFLINE"] = "true"
    flags = " ".join("--cfg %s" % c for c in cfgs)
    if flags:
        env["RUSTFLAGS"] = flags
    else:
        env.pop("RUSTFLAGS", None)
    return env


def run_kani_jobs(ctx, harnesses):
    """harnesses: {name: spec}. Returns {name: result}, edit logs per variant."""
    sel_all = harnesses
    by_variant = {}
    for h, spec in harnesses.items():
        by_variant.setdefault(spec.get("variant_" + ctx.tier) or spec.get("variant", "base"), {})[h] = spec
    results, edits, crates = {}, {}, {}
    jobs = []
    gjobs = []
    for variant, hs in by_variant.items():
        vdir = os.path.join(ctx.work, variant)
        os.makedirs(vdir, exist_ok=True)
        vs = registry.VARIANTS[variant]
        mods = sorted({s["module"] for s in hs.values() if s.get("module")} | {m for s in hs.values() for m in s.get("extra_modules", [])})
        mods = sorted(set(mods) | set(vs.get("modules", [])))
        mods = sorted(set(mods) | {d for m in mods for d in getattr(registry, "MODULE_DEPS", {}).get(m, [])})
        gens = sorted({s["generator"] for s in hs.values() if s.get("generator")})

        def do_extract(skip=()):
            extra = {}
            for gen in gens:
                extra.update(registry.GENERATORS[gen](extract.REPO, skip) if skip else registry.GENERATORS[gen](extract.REPO))
            return extract.extract(vdir, mods, macos=vs.get("macos", False), big_arena=vs.get("big_arena", False), contracts=registry.contracts_for(hs), extra_files=extra, extra_cfgs=vs.get("cfgs", []), arch=vs.get("arch"))

        log_, cfgs = do_extract()
        crate = os.path.join(vdir, "crate")
        skip_arms = set()
        for pk in sorted({s["precheck"] for s in hs.values() if s.get("precheck")}):
            t0 = time.time()
            pr = registry.PRECHECKS[pk](crate, kani_env(cfgs))
            r = dict(harness="precheck:" + pk, status="pass", obligations=pr["obligations"], failures=pr["failures"], undecided=pr["undecided"], covers={}, solver_s=0.0, variant=variant,
                     wall_s=round(time.time() - t0, 1), cmd="cargo check --offline --lib (rustc as the checker of the generated instantiations)", n_checks=len(pr["obligations"]))
            r["status"] = "violation" if pr["failures"] else ("undecided" if pr["undecided"] else "pass")
            results["precheck:" + pk] = r
            log("  [rustc] %-43s %-10s %5.1fs  obligations=%d" % ("precheck:" + pk, r["status"], r["wall_s"], len(r["obligations"])))
            skip_arms |= pr.get("skip", set())
        if skip_arms:
            log_, cfgs = do_extract(tuple(sorted(skip_arms)))
        edits[variant] = log_
        crates[variant] = (crate, cfgs)
        groups = {}
        for h, spec in hs.items():
            if spec.get("arm") in skip_arms:
                continue
            if spec.get("group"):
                groups.setdefault(spec["group"], []).append((h, spec))
            else:
                jobs.append((variant, h, spec))
        for gname, members in groups.items():
            nchunks = max(1, min(ctx.jobs, (len(members) + 5) // 6))
            for ci in range(nchunks):
                chunk = members[ci::nchunks]
                if chunk:
                    gjobs.append((variant, "%s.%d" % (gname, ci), chunk))

    def one_group(job):
        variant, gname, chunk = job
        crate, cfgs = crates[variant]
        td = os.path.join(ctx.work, variant, "td", gname)
        cmd = ["cargo", "kani"] + KANI_FLAGS + ["--exact", "--target-dir", td]
        for h, spec in chunk:
            cmd += ["--harness", fq_name(h, spec)]
        rc, out, wall = run(cmd, cwd=crate, env=kani_env(cfgs), timeout=600 if ctx.tier == "quick" else 3600)
        segs = re.split(r"(?m)^Checking harness ", out)
        outl = []
        for h, spec in chunk:
            fq = fq_name(h, spec)
            seg = next((x for x in segs[1:] if x.startswith(fq + "...")), None)
            if seg is None:
                r = dict(harness=h, status="undecided", obligations={}, failures=[], undecided=["harness did not build or run: " + "\n".join(l for l in out.strip().split("\n")[-12:] if not l.startswith("warning"))], covers={}, solver_s=0.0)
            else:
                r = classify(h, spec, seg, 0 if "VERIFICATION:-" in seg else rc)
                if r["status"] in ("violation", "undecided"):
                    i = seg.rfind("SUMMARY:")
                    r["raw_tail"] = seg[i:][:3000] if i >= 0 else seg[-2000:]
            r["wall_s"] = round(wall / max(1, len(chunk)), 1)
            r["variant"] = variant
            r["cmd"] = "cargo kani %s --exact --harness %s" % (" ".join(KANI_FLAGS), fq)
            outl.append((h, r))
        if not ctx.keep and not any(r["status"] == "violation" for _h, r in outl):
            shutil.rmtree(td, ignore_errors=True)
        return outl

    def one(job):
        variant, h, spec = job
        crate, cfgs = crates[variant]
        td = os.path.join(ctx.work, variant, "td", h)
        cmd = ["cargo", "kani"] + KANI_FLAGS + ["--harness", fq_name(h, spec), "--exact", "--target-dir", td] + spec.get("kani_args", [])
        tmo = spec.get("timeout", 900 if ctx.tier == "quick" else 3600)
        rc, out, wall = run(cmd, cwd=crate, env=kani_env(cfgs), timeout=tmo)
        r = classify(h, spec, out, rc)
        r["wall_s"] = round(wall, 1)
        r["variant"] = variant
        r["cmd"] = " ".join(cmd)
        if r["status"] in ("violation", "undecided"):
            i = out.rfind("SUMMARY:")
            r["raw_tail"] = out[i:][:3000] if i >= 0 else "\n".join(l for l in out.strip().split("\n")[-40:] if not l.startswith("warning"))
        if not ctx.keep and r["status"] != "violation":
            shutil.rmtree(td, ignore_errors=True)
        return h, r

    with cf.ThreadPoolExecutor(max_workers=ctx.jobs) as ex:
        futs = [ex.submit(one, j) for j in jobs] + [ex.submit(one_group, j) for j in gjobs]
        for fu in cf.as_completed(futs):
            rr = fu.result()
            for h, r in ([rr] if isinstance(rr, tuple) else rr):
                results[h] = r
                if r["status"] != "pass" or not (sel_all.get(h) or {}).get("group"):
                    log("  [kani] %-44s %-10s %5.1fs  obligations=%d" % (h, r["status"], r["wall_s"], len(r["obligations"])))
    ng = sum(1 for h in results if (sel_all.get(h) or {}).get("group") and results[h]["status"] == "pass")
    if ng:
        log("  [kani] %d grouped harnesses passed" % ng)
    for v, gname, chunk in gjobs:
        for h, spec in chunk:
            jobs.append((v, h, spec))
    # counterexamples: sequential (the in-place playback edits the proof module of the scratch crate)
    for variant, h, spec in jobs:
        r = results[h]
        known = json.load(open(os.path.join(HERE, "known_findings.json")))["findings"]
        fresh = [f for f in r["failures"] if not known_match(ctx.prop, h, f, None, known) and not (re.match(r"C\d\d\.", f["obligation"]) and not f["obligation"].startswith(ctx.prop + ".") and ctx.prop not in spec.get("shared", {}).get(f["obligation"], []))]
        n_pb = sum(1 for x in results.values() if x.get("playback") is not None)
        if r["status"] == "violation" and fresh and n_pb < int(os.environ.get("VERIF_MAX_PLAYBACK", "3")) and not os.environ.get("VERIF_NO_PLAYBACK"):
            crate, cfgs = crates[variant]
            td = os.path.join(ctx.work, variant, "td", h)
            try:
                r["playback"] = playback(crate, kani_env(cfgs), h, spec, td)
            except Exception as e:  # noqa: BLE001
                r["playback_error"] = repr(e)
            if not ctx.keep:
                shutil.rmtree(td, ignore_errors=True)
    return results, edits


def run_verus_job(ctx, name, spec):
    """spec: {builder: fn(repo)->(text, edit log), expect_verified: n}"""
    vdir = os.path.join(ctx.work, "verus")
    os.makedirs(vdir, exist_ok=True)
    r = dict(harness=name, status="pass", obligations={}, failures=[], undecided=[], covers={}, solver_s=0.0, variant="verus")
    try:
        text, elog = spec["builder"](extract.REPO)
    except extract.LostAnchor as e:
        if spec.get("soft_frontend"):
            r["soft_note"] = "unit %s not decided on this tree (lost anchor: %s); its obligations are left to the bounded Kani harnesses of the same contract" % (name, e)
            log("NOTE: " + r["soft_note"])
            return r, []
        r["status"] = "undecided"
        r["undecided"].append("lost anchor: %s" % e)
        return r, []
    path = os.path.join(vdir, name + ".rs")
    with open(path, "w") as f:
        f.write(text)
    # mechanical scan of the generated unit for everything that is assumed rather than proved
    tl = text.split("\n")
    assumed = []
    for i, l in enumerate(tl):
        if "#[verifier::external_body]" in l:
            nxt = next((x.strip() for x in tl[i + 1:i + 4] if re.search(r"\b(fn|struct)\b", x)), "")
            assumed.append("%s: external_body %s" % (name, nxt.split("{")[0][:110]))
        elif "assume_specification" in l or re.search(r"\buninterp spec fn\b", l) or re.search(r"\b(assume|admit)\(", l):
            assumed.append("%s: %s" % (name, l.strip()[:120]))
    r["assumed"] = assumed
    cmd = ["verus", path, "--output-json", "--time", "--multiple-errors", "20"] + spec.get("verus_args", [])
    t0 = time.time()
    try:
        pr = subprocess.run(cmd, cwd=vdir, stdout=subprocess.PIPE, stderr=subprocess.PIPE, text=True, errors="replace", timeout=spec.get("timeout", 600))
        jtxt, out = pr.stdout, pr.stderr
    except subprocess.TimeoutExpired:
        r["status"] = "undecided"
        r["undecided"].append("verus timeout")
        return r, elog
    r["wall_s"] = round(time.time() - t0, 1)
    r["cmd"] = " ".join(cmd)
    js = None
    try:
        js = json.loads(jtxt[jtxt.index("{"):])
    except Exception:  # noqa: BLE001
        js = None
    if js is None:
        r["status"] = "undecided"
        r["undecided"].append("verus produced no JSON: " + "\n".join((out + jtxt).strip().split("\n")[-20:]))
        return r, elog
    vr = js.get("verification-results", {})
    verified, errors = vr.get("verified", 0), vr.get("errors", 0)
    r["verified"], r["errors"] = verified, errors
    t = js.get("times-ms", {})
    r["solver_s"] = (t.get("smt", {}).get("total", 0) or 0) / 1000.0 if isinstance(t.get("smt"), dict) else 0.0
    # failed obligations are reported on stderr-like text before the JSON: collect `error: ...` with the OBL label
    errs = re.findall(r"error(?:\[\w+\])?: (.*?)\n\s+--> (.*?)\n(?:.*\n){0,6}?", out)
    labels = spec.get("labels", {})
    if not vr.get("success", False) or errors:
        # classify: rustc/verus front-end errors (not verification failures) are undecided
        hard = [e for e in errs if not re.search(r"postcondition not satisfied|precondition not satisfied|invariant not satisfied|assertion failed|decreases not satisfied|possible arithmetic|possible division|recommendation|loop invariant|might not terminate|possible bit shift", e[0])]
        if "verification-results" not in js or (vr.get("encountered-vir-error") or (errors == 0 and not vr.get("success"))):
            msg = "verus front-end error: " + "; ".join(e[0] for e in errs[:5])
            r["raw_tail"] = out[:4000]
            if spec.get("soft_frontend"):
                # the code left the shape this unit translates (e.g. a private helper was extracted): the unit's
                # unbounded obligations are NOT decided on this tree; the bounded Kani obligations of the same
                # contract still run and decide. Reported as a note and under `assumptions`, never as discharged.
                r["status"] = "pass"
                r["soft_note"] = "unit %s not decided on this tree (%s); its obligations are left to the bounded Kani harnesses of the same contract" % (name, msg[:300])
                for oid in sorted(set(re.findall(r"OBL:([\w.\-]+)", text))):
                    r["obligations"][oid] = "UNDETERMINED"
                log("NOTE: " + r["soft_note"])
                return r, elog
            r["status"] = "undecided"
            r["undecided"].append(msg)
            return r, elog
        for msg, loc in errs:
            if re.search(r"possible arithmetic|possible division|possible bit shift", msg):
                r["undecided"].append("verus: %s at %s (implicit overflow is a loud failure, not decided here)" % (msg, loc))
                continue
            if re.search(r"postcondition|precondition|invariant|assertion failed|decreases|terminate", msg):
                # which labelled obligation? look at the source line
                lab = "verus." + name
                try:
                    ln = int(loc.split(":")[-2])
                    tl = text.split("\n")
                    # the label is on the failing clause's own line, or on the nearest line above it
                    for up in range(ln - 1, max(-1, ln - 60), -1):
                        mm = re.search(r"OBL:([\w.\-]+)", tl[up])
                        if mm:
                            lab = mm.group(1)
                            break
                except Exception:  # noqa: BLE001
                    pass
                r["failures"].append(dict(obligation=lab, desc=msg + " at " + loc, loc=loc, kind="obligation"))
        if not r["failures"] and not r["undecided"]:
            r["undecided"].append("verus reported errors that could not be classified")
        r["raw_tail"] = out[:6000]
    exp = spec.get("expect_verified")
    if exp is not None and not r["failures"] and verified < exp:
        r["undecided"].append("verus verified %d items, expected >= %d" % (verified, exp))
    for oid in spec.get("obligations", []) or sorted(set(re.findall(r"OBL:([\w.\-]+)", text))):
        r["obligations"][oid] = "FAILURE" if any(f["obligation"] == oid for f in r["failures"]) else ("SUCCESS" if not r["failures"] and not r["undecided"] else "UNDETERMINED")
    for f in r["failures"]:
        r["obligations"][f["obligation"]] = "FAILURE"
    if r["failures"]:
        r["status"] = "violation"
    elif r["undecided"]:
        r["status"] = "undecided"
    log("  [verus] %-43s %-10s %5.1fs  verified=%s errors=%s" % (name, r["status"], r["wall_s"], verified, errors))
    return r, elog


def known_match(prop, h, f, playback_vals, known):
    for k in known:
        if k.get("status") != "open" or k["property"] != prop:
            continue
        if k["obligation"] != f["obligation"]:
            continue
        if k.get("harness") and k["harness"] != h:
            continue
        return k
    return None


def main():
    ap = argparse.ArgumentParser()
    ap.add_argument("prop")
    ap.add_argument("--tier", default=os.environ.get("VERIF_TIER", "quick"))
    ap.add_argument("--only", default="")
    ap.add_argument("--keep", action="store_true")
    ap.add_argument("--jobs", type=int, default=int(os.environ.get("VERIF_JOBS", "14")))
    a = ap.parse_args()
    prop, tier = a.prop, a.tier
    seed = int(os.environ.get("VERIF_SEED", "0") or 0)
    ctx = Ctx(prop, tier, a.keep, a.jobs, a.only)
    shutil.rmtree(ctx.work, ignore_errors=True)
    os.makedirs(ctx.work, exist_ok=True)
    os.makedirs(ctx.replays, exist_ok=True)
    pinfo = registry.PROPS[prop]
    only = set(x for x in a.only.split(",") if x)

    sel = {h: s for h, s in registry.HARNESSES.items() if prop in s["props"] and tier in s.get("tiers", ("quick", "thorough")) and (not only or h in only)}
    vsel = {n: s for n, s in registry.VERUS.items() if prop in s["props"] and tier in s.get("tiers", ("quick", "thorough")) and (not only or n in only)}
    ssel = {n: s for n, s in registry.STATIC.items() if prop in s["props"] and (not only or n in only)}
    log("== %s (%s): %d Kani harnesses, %d Verus units, %d syntactic scans; tree %s" % (prop, tier, len(sel), len(vsel), len(ssel), extract.REPO))

    results, edits = {}, {}
    infra = []
    try:
        if sel:
            results, edits = run_kani_jobs(ctx, sel)
    except extract.LostAnchor as e:
        infra.append("lost anchor: %s" % e)
    for n, s in vsel.items():
        r, elog = run_verus_job(ctx, n, s)
        results[n] = r
        edits["verus:" + n] = elog
    static_notes = []
    ssel_native = {}
    for n, s in ssel.items():
        try:
            ok, note = s["fn"](extract.REPO)
        except extract.LostAnchor as e:
            ok, note = None, "lost anchor: %s" % e
        static_notes.append(dict(scan=n, ok=ok, note=note))
        log("  [scan] %-44s %s  %s" % (n, {True: "ok", False: "FLAG", None: "undecided"}[ok], note[:100]))

    known = json.load(open(os.path.join(HERE, "known_findings.json")))["findings"]
    violations, known_hits, undecided = [], [], list(infra)
    n_obl = n_dis = 0
    kf_obl = []
    obl_list = []
    solver_total = 0.0
    for h, r in sorted(results.items()):
        spec = sel.get(h) or vsel.get(h) or {}
        if h.startswith("precheck:"):
            spec = next((s_ for s_ in sel.values() if s_.get("precheck") == h[9:]), {})
            sel[h] = spec
        solver_total += r.get("solver_s") or 0
        # Kani's assert! assumes its condition afterwards: once an obligation fails, the obligations that
        # follow it in the same harness are only checked on the executions where it held. If an obligation of
        # ANOTHER property failed in this harness, this property's SUCCESSes there are not trustworthy.
        # (Verus reports every failing clause of a function separately: no masking there)
        foreign_fail = [] if r.get("variant") == "verus" else [f["obligation"] for f in r["failures"] if re.match(r"C\d\d\.", f["obligation"]) and not f["obligation"].startswith(prop + ".") and prop not in spec.get("shared", {}).get(f["obligation"], [])]
        own_fail = [f for f in r["failures"] if f["obligation"] not in foreign_fail]
        if foreign_fail and not own_fail:
            undecided.append("%s: obligation(s) %s of another property failed in this shared harness; the obligations of %s that follow them are masked (Kani assumes an assertion after checking it) and count as not decided" % (h, ", ".join(sorted(set(foreign_fail))[:4]), prop))
        for oid, st in sorted(r["obligations"].items()):
            if foreign_fail and st == "SUCCESS":
                st = "UNDETERMINED"
            own = not re.match(r"C\d\d\.", oid) or oid.startswith(prop + ".") or prop in spec.get("shared", {}).get(oid, [])
            if not own:
                continue  # obligation of another property hosted by a shared harness
            if st == "FAILURE" and any(known_match(prop, h, f, None, known) for f in r["failures"] if f["obligation"] == oid):
                kf_obl.append(h + "/" + oid)
                continue  # a recorded known finding: reported separately, not counted as an obligation to discharge
            n_obl += 1
            bounded = spec.get("bounded")
            ok = st == "SUCCESS"
            if ok:
                n_dis += 1
            obl_list.append(dict(id=h + "/" + oid, status=st, engine=("verus/z3" if r.get("variant") == "verus" else "kani/cbmc"), bounded=bounded or None, wall_s=r.get("wall_s"), solver_s=round(r.get("solver_s") or 0, 2)))
        for f in r["failures"]:
            oid = f["obligation"]
            if re.match(r"C\d\d\.", oid) and not oid.startswith(prop + ".") and prop not in (sel.get(h) or vsel.get(h) or {}).get("shared", {}).get(oid, []):
                log("  note: %s/%s failed but belongs to another property's check" % (h, oid))
                continue
            k = known_match(prop, h, f, r.get("playback"), known)
            if k:
                known_hits.append((k, h, f))
            else:
                violations.append((h, f, r))
        if r["status"] == "undecided" or (r["undecided"] and r["status"] != "violation"):
            undecided.append("%s: %s" % (h, "; ".join(r["undecided"])[:600]))
    soft_notes = [r["soft_note"] for r in results.values() if r.get("soft_note")]
    for sn in static_notes:
        if sn["ok"] is None:
            undecided.append("scan %s: %s" % (sn["scan"], sn["note"]))
        elif sn["ok"] is False:
            # a syntactic scan decides nothing by itself: a flag becomes a violation only when the native
            # replay registered for it fails against the real crate
            sp = ssel[sn["scan"]]
            nat = sp["replay_static"](HERE) if sp.get("replay_static") else None
            if nat and nat.get("reproduced"):
                f = dict(obligation=sp.get("obligation", sn["scan"]), desc=sn["note"], loc="", kind="obligation")
                results["scan:" + sn["scan"]] = dict(harness="scan:" + sn["scan"], status="violation", obligations={f["obligation"]: "FAILURE"}, failures=[f], undecided=[], covers={}, solver_s=0, variant="scan",
                                                     cmd="syntactic scan + native replay", raw_tail=json.dumps(nat), playback=None)
                violations.append(("scan:" + sn["scan"], f, results["scan:" + sn["scan"]]))
                ssel_native[sn["scan"]] = nat
            elif sp.get("soft"):
                # the flag only widens what must be assumed: recorded, not an alarm and not undecided
                soft_notes.append("%s — native history replays pass; the contracts are proved from the initial state and over the depth-2 histories of the *_seq / *_top / *_again harnesses only" % sn["note"])
                log("NOTE: scan %s: %s (native history replays pass)" % (sn["scan"], sn["note"]))
            else:
                undecided.append("scan %s flagged (%s) but the native replay did not confirm it" % (sn["scan"], sn["note"]))

    # ---- report ------------------------------------------------------------------------------
    rc = 0
    for k, h, f in known_hits:
        log("KNOWN-FINDING: property=%s %s [%s/%s]" % (prop, k["what"], h, f["obligation"]))
    seen = set()
    for h, f, r in violations:
        key = (h, f["obligation"])
        if key in seen:
            continue
        seen.add(key)
        rc = 1
        rp = os.path.join(ctx.replays, "%s-%s-%s.json" % (prop, h, re.sub(r"[^\w.\-]", "_", f["obligation"])))
        pb = [t for t in (r.get("playback") or []) if t["kind"] != "cover" and (f["obligation"] in t["desc"] or f["kind"] == "memory")]
        spec = sel.get(h) or vsel.get(h) or {}
        native = ssel_native.get(h[5:]) if h.startswith("scan:") else None
        if spec.get("replay"):
            try:
                native = spec["replay"](pb[0]["vals"] if pb else None, HERE)
            except Exception as e:  # noqa: BLE001
                native = dict(error=str(e))
        elif spec.get("replay_static"):
            try:
                native = spec["replay_static"](HERE)
            except Exception as e:  # noqa: BLE001
                native = dict(error=str(e))
        doc = dict(property=prop, obligation=h + "/" + f["obligation"], description=f["desc"], location=f["loc"], engine=r.get("variant"), checker_cmd=r.get("cmd"),
                   counterexample=[dict(check=t["desc"], any_values_le=[le(t["vals"], i) for i in range(len(t["vals"]))], raw=t["vals"],
                                        replayed_natively_on_extracted_real_code=t.get("native_failed"), same_obligation_failed_natively=t.get("native_same_obligation"), native_transcript=t.get("native_transcript")) for t in pb[:3]],
                   playback_error=r.get("playback_error"),
                   native_replay=native, verifier_output=r.get("raw_tail", ""))
        with open(rp, "w") as fjs:
            json.dump(doc, fjs, indent=1)
        has_input = bool(pb) or bool(native and native.get("reproduced"))
        log("VIOLATION property=%s replay=%s%s" % (prop, rp, "" if has_input else " no-failing-input-found"))
        log("   obligation %s/%s: %s" % (h, f["obligation"], f["desc"]))
        if native:
            log("   native replay: %s" % json.dumps(native)[:400])
    if rc == 0 and undecided:
        rc = 2
        for u in undecided:
            log("UNDECIDED: " + u)

    # ---- evidence -----------------------------------------------------------------------------
    fn_specs = []
    for h, s in list(sel.items()) + list(vsel.items()):
        for x in s.get("fns", []):
            if x not in fn_specs:
                fn_specs.append(x)
    try:
        hashes = extract.body_hashes([(x[0], x[1], x[2] if len(x) > 2 else 0, x[3] if len(x) > 3 else None) for x in fn_specs])
    except extract.LostAnchor as e:
        hashes = {"error": str(e)}
    assumptions = sorted(set(pinfo.get("assumptions", []) + registry.scan_assumptions(sorted({s.get("module") for s in sel.values() if s.get("module")})) + [a for r in results.values() for a in r.get("assumed", [])] + [s_["note"] for s_ in sel.values() if s_.get("note")] + soft_notes))
    edit_summary = {}
    for v, lg in edits.items():
        cnt = {}
        for e in lg:
            cnt[e["rule"]] = cnt.get(e["rule"], 0) + 1
        edit_summary[v] = cnt
    samples = [o for o in obl_list[:6]]
    n_bounded = sum(1 for o in obl_list if o["bounded"])
    ev = dict(
        property_id=prop, tier=tier, seed=seed, level=pinfo.get("level", "proof"),
        coverage=dict(
            obligations=n_obl, discharged=n_dis,
            discharged_unbounded=sum(1 for o in obl_list if o["status"] == "SUCCESS" and not o["bounded"]),
            discharged_bounded_stand_in=sum(1 for o in obl_list if o["status"] == "SUCCESS" and o["bounded"]),
            checker_cmd="cargo kani -Z stubbing -Z function-contracts --harness <h> --exact (Kani 0.68 / CBMC 6.11) on the crate extracted from /repo/src; verus <file> (Verus 0.2026.09.13 / Z3) on extracted functions",
            trusted_base=pinfo.get("trusted_base", []),
            functions_under_contract=hashes,
            harnesses={h: dict(status=r["status"], wall_s=r.get("wall_s"), solver_s=round(r.get("solver_s") or 0, 2), checks=r.get("n_checks"), covers=r.get("covers"), bounded=(sel.get(h) or vsel.get(h) or {}).get("bounded")) for h, r in results.items()},
            obligation_list=obl_list[:400],
            obligation_list_truncated=max(0, len(obl_list) - 400),
            obligations_by_engine={e: sum(1 for o in obl_list if o["engine"] == e and o["status"] == "SUCCESS") for e in sorted({o["engine"] for o in obl_list})},
            samples=samples or [dict(note="no obligations ran")],
            extraction_edits=edit_summary,
            syntactic_scans=static_notes,
            solver_time_s=round(solver_total, 2),
            known_findings_hit=[k["what"] for k, _h, _f in known_hits],
            known_finding_obligations=kf_obl,
            undecided=undecided,
            explanation=pinfo.get("explanation", ""),
        ),
        assumptions=assumptions,
        wall_s=round(time.time() - ctx.t0, 1),
        violations=len(seen),
    )
    # a partial run (--only) never overwrites the registered evidence file
    evdir = os.environ.get("VERIF_EVIDENCE_DIR", os.path.join(HERE, "evidence") if not only else os.path.join(HERE, "work", "evidence-partial"))
    os.makedirs(evdir, exist_ok=True)
    with open(os.path.join(evdir, prop + ".json"), "w") as f:
        json.dump(ev, f, indent=1)
    if not ctx.keep:
        shutil.rmtree(ctx.work, ignore_errors=True)
    log("== %s: obligations %d, discharged %d (%d by bounded stand-in), violations %d, known findings %d, undecided %d, %.0fs -> exit %d"
        % (prop, n_obl, n_dis, n_bounded, len(seen), len(known_hits), len(undecided), time.time() - ctx.t0, rc))
    sys.exit(rc)


if __name__ == "__main__":
    try:
        main()
    except SystemExit:
        raise
    except BaseException as e:  # noqa: BLE001 — an internal error of the checker is never an alarm
        import traceback
        traceback.print_exc()
        print("UNDECIDED: internal error of the checker (%s: %s)" % (type(e).__name__, str(e)[:300]))
        sys.exit(2)
